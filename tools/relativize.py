#!/usr/bin/env python3
"""Relativise every heap-quantified axiom of the prelude to *good* heaps: (forall ((h Heap) ..) BODY) becomes
(forall ((h Heap) ..) (=> (gh h) BODY)).  `gh` is asserted by the engine for every heap constant it introduces.
Without the guard an axiom that is only true of reachable heaps (finite-set facts, acyclicity rank, typing of
native arguments) quantifies over all values of the Heap datatype, including ones that falsify it: the prelude
was inconsistent for a solver that constructs such a heap term (cvc5 did).  Idempotent."""
import sys, re

def parse(s, i=0):
    """returns list of top-level items (str atoms / nested lists) with source spans"""
    items = []
    n = len(s)
    while i < n:
        c = s[i]
        if c.isspace():
            i += 1
        elif c == ';':
            while i < n and s[i] != '\n':
                i += 1
        elif c == '(':
            sub, j = parse_list(s, i)
            items.append((sub, i, j))
            i = j
        else:
            j = i
            while j < n and not s[j].isspace() and s[j] not in '()':
                j += 1
            items.append((s[i:j], i, j))
            i = j
    return items

def parse_list(s, i):
    assert s[i] == '('
    i += 1
    out = []
    n = len(s)
    while True:
        c = s[i]
        if c.isspace():
            i += 1
        elif c == ';':
            while s[i] != '\n':
                i += 1
        elif c == ')':
            return out, i + 1
        elif c == '(':
            sub, j = parse_list(s, i)
            out.append(sub)
            i = j
        elif c == '|':
            j = s.index('|', i + 1) + 1
            out.append(s[i:j]); i = j
        else:
            j = i
            while not s[j].isspace() and s[j] not in '()':
                j += 1
            out.append(s[i:j])
            i = j

def show(x):
    if isinstance(x, str):
        return x
    return '(' + ' '.join(show(y) for y in x) + ')'

def transform(form):
    # (assert (forall (binders) X))
    if not (isinstance(form, list) and len(form) == 2 and form[0] == 'assert'):
        return None
    q = form[1]
    if not (isinstance(q, list) and len(q) == 3 and q[0] == 'forall'):
        return None
    hs = [b[0] for b in q[1] if isinstance(b, list) and len(b) == 2 and b[1] == 'Heap']
    if not hs:
        return None
    guard = '(gh %s)' % hs[0] if len(hs) == 1 else '(and ' + ' '.join('(gh %s)' % h for h in hs) + ')'
    body = q[2]
    if isinstance(body, list) and body and body[0] == '!':
        inner = body[1]
        if show(inner).startswith('(=> ' + guard):
            return None
        body = ['!', ['=>', guard, inner]] + body[2:]
    else:
        if show(body).startswith('(=> ' + guard):
            return None
        body = ['=>', guard, body]
    return show(['assert', ['forall', q[1], body]])

for path in sys.argv[1:]:
    src = open(path).read()
    out = []
    last = 0
    changed = 0
    for item, a, b in parse(src):
        t = transform(item) if isinstance(item, list) else None
        if t is not None:
            out.append(src[last:a]); out.append(t); last = b; changed += 1
    out.append(src[last:])
    open(path, 'w').write(''.join(out))
    print(path, 'relativised', changed)
