package anytype

// Bounded oracles: C10/C11 (tree form), C14 (typed views), C15 (async), C17 (sort / reverse),
// C18 (numeric aggregates), C19 (derived identity).

import (
	"encoding/json"
	"fmt"
	"math"
	"reflect"
	"runtime"
	"sort"
	"strconv"
	"strings"
	"sync"
	"time"
)

// ---------------------------------------------------------------------------
// tree form

func tfTrees() []treeGen {
	return []treeGen{
		{"T0", func() any {
			return NewObject("a", NewObject("b", 1, "l", NewList(1, NewObject("c", "x"), NewList(2, 3))), "l", NewList(NewList(), NewObject(), nil, "s"), "n", nil, "s", "str", ".a", 5, "0", 6, "1", NewList(7))
		}},
		{"T1", func() any {
			return NewList(NewObject("a", 1, "0", NewList(9)), NewList(NewObject("a", NewList(1, 2)), 4), 3, nil)
		}},
		{"T4", func() any { // shrunk lists: stale elements behind len within spare capacity
			return NewList(1, NewObject("z", 1), 3, 4).Delete(1).Delete(1)
		}},
		{"T5", func() any {
			return NewObject("a", NewList(1, 2, 3).Pop().Pop(), "l", NewList(NewList(7, 8, 9).Delete(0), 5, 6).Pop())
		}},
		{"T2", func() any { return NewObject() }},
		{"T3", func() any { return NewList() }},
		{"T6", func() any { // multi-byte keys on intermediate segments, lists of lists followed by keys
			return NewObject("é", NewObject("x", 1, "日本", NewList(NewObject("z", 2))), "données", NewList(0, NewObject("k", "v")), "😀", NewList(NewList(NewList(5))), "a", NewObject("日本", NewObject("z", 3)),
				"m", NewList(NewList(NewObject("name", "n0"), NewObject("name", "n1"))))
		}},
		{"T7", func() any {
			return NewList(NewList(NewObject("name", "a"), NewObject("name", "b")), NewList(NewList(NewObject("deep", 1))))
		}},
	}
}

var tfAlphabet = []string{".", "#", "a", "b", "l", "0", "1", "2", "c", "9"}

func tfPaths(maxLen int) []string {
	var out []string
	var gen func(p string, d int)
	gen = func(p string, d int) {
		if p != "" {
			out = append(out, p)
		}
		if d == maxLen {
			return
		}
		for _, a := range tfAlphabet {
			gen(p+a, d+1)
		}
	}
	gen("", 0)
	out = append(out, ".é.x", ".é.日本#0.z", ".données#1.k", ".données#1", ".😀#0#0", ".😀#0#0#0", ".a.日本.z", ".é", ".é.", ".m#0#1.name", ".m#0#0.name", "#0#1.name", "#1#0#0.deep", "#0#0", "#0#1", "#1#0#0", ".hé", ".é.y",
		".a.l#1.c", ".a.l#2#1", ".l#3", ".l#0", "#0.0#0", "#1#0.a#1", ".a.b.c", ".l#1.x", "..a", ".a..b", "#0..a", ".", "#", ".#0", "#.a", ".a.l#-1", ".a.l#1x", "#18446744073709551616", ".a.l#00", ".l#4", ".a.l#3")
	return out
}

// stepwise reference resolution; wellFormed reports whether the path is in the property's domain.
func tfResolve(root any, p string) (val any, ok bool, wellFormed bool) {
	cur := root
	wellFormed = true
	for len(p) > 0 {
		sigil := p[0]
		rest := p[1:]
		end := len(rest)
		if i := strings.IndexAny(rest, ".#"); i >= 0 {
			end = i
		}
		seg := rest[:end]
		p = rest[end:]
		if seg == "" {
			return nil, false, true
		}
		switch sigil {
		case '.':
			o, isO := cur.(Object)
			if !isO {
				return nil, false, wellFormed
			}
			if !o.KeyExists(seg) {
				return nil, false, wellFormed
			}
			cur = o.Get(seg)
		case '#':
			n, err := strconv.Atoi(seg)
			canonical := err == nil && n >= 0 && strconv.Itoa(n) == seg
			if !canonical {
				// non-numeric segments are in the domain (must be undefined); other spellings Go accepts (010, +1, 0x1, 1_0) are a grey zone
				if _, e2 := strconv.ParseInt(seg, 0, 64); e2 == nil {
					return nil, false, false
				}
				return nil, false, wellFormed
			}
			l, isL := cur.(List)
			if !isL {
				return nil, false, wellFormed
			}
			if n >= l.Count() {
				return nil, false, wellFormed
			}
			cur = l.Get(n)
		default:
			return nil, false, true
		}
	}
	return cur, true, wellFormed
}

func typeOfVal(v any) Type {
	switch v.(type) {
	case nil:
		return TypeNil
	case Object:
		return TypeObject
	case List:
		return TypeList
	case string:
		return TypeString
	case bool:
		return TypeBool
	case int:
		return TypeInt
	case float64:
		return TypeFloat
	}
	return TypeUndefined
}

func c10Oracle(c *oracleCtx) {
	maxLen := 5
	if c.thorough {
		maxLen = 6
	}
	paths := tfPaths(maxLen)
	c.rule = "every string of length <= N over the path alphabet {. # a b l 0 1 2 c 9} plus hand-picked corruptions, on 4 trees: TypeOfTF never panics and equals the kind found by stepwise navigation (Undefined when a step fails); GetTF returns the identical value or panics; the tree is not modified"
	c.bound = fmt.Sprintf("%d paths (N=%d) x 4 trees", len(paths), maxLen)
	for _, tg := range tfTrees() {
		root := tg.make()
		before := native(root)
		for _, p := range paths {
			p := p
			c.check(tg.id+":"+p, len(p) > 1, func() string {
				want, ok, wf := tfResolve(root, p)
				if len(p) == 0 {
					return ""
				}
				// the root container decides which sigil may lead
				if _, isL := root.(List); isL && p[0] == '.' || !isL && p[0] == '#' {
					ok = false
				}
				if !wf {
					return ""
				}
				var ty Type
				var got any
				if catch(func() {
					if l, isL := root.(List); isL {
						ty = l.TypeOfTF(p)
					} else {
						ty = root.(Object).TypeOfTF(p)
					}
				}) {
					return "TypeOfTF panicked"
				}
				pan := catch(func() {
					if l, isL := root.(List); isL {
						got = l.GetTF(p)
					} else {
						got = root.(Object).GetTF(p)
					}
				})
				if ok {
					if ty != typeOfVal(want) {
						return fmt.Sprintf("TypeOfTF = %d, stepwise navigation finds kind %d", ty, typeOfVal(want))
					}
					if pan || !same(got, want) {
						return fmt.Sprintf("GetTF = %s (panic %v), stepwise navigation finds %s", show(got), pan, show(want))
					}
				} else {
					if ty != TypeUndefined {
						return fmt.Sprintf("TypeOfTF = %d for an unresolvable path", ty)
					}
					if !pan {
						return fmt.Sprintf("GetTF returned %s for an unresolvable path", show(got))
					}
				}
				return ""
			})
		}
		if !reflect.DeepEqual(before, native(root)) {
			c.check(tg.id+":modified", true, func() string { return "a tree-form read modified the tree" })
		}
	}
}

// snapshot of a tree with container identities
type tsnap struct {
	nat any
	ids map[string]any // path -> container identity
}

func snapTree(v any, path string, ids map[string]any) {
	switch x := v.(type) {
	case List:
		ids[path] = x
		for i := 0; i < x.Count(); i++ {
			snapTree(x.Get(i), path+"#"+strconv.Itoa(i), ids)
		}
	case Object:
		ids[path] = x
		x.ForEach(func(k string, e any) { snapTree(e, path+"."+k, ids) })
	}
}

func wellFormedWrite(p string) ([]string, bool) {
	// segments with sigils; keys non-empty without sigils, indexes canonical decimals
	var segs []string
	for len(p) > 0 {
		rest := p[1:]
		end := len(rest)
		if i := strings.IndexAny(rest, ".#"); i >= 0 {
			end = i
		}
		seg := rest[:end]
		if seg == "" || (p[0] != '.' && p[0] != '#') {
			return nil, false
		}
		if p[0] == '#' {
			n, err := strconv.Atoi(seg)
			if err != nil || n < 0 || strconv.Itoa(n) != seg || n > 6 {
				return nil, false
			}
		}
		segs = append(segs, p[:1+end])
		p = rest[end:]
	}
	return segs, len(segs) > 0
}

// refSet applies SetTF on a native mirror (maps / slices), the property's reference semantics.
func refSet(node any, segs []string, v any) any {
	if len(segs) == 0 {
		return v
	}
	s := segs[0]
	if s[0] == '.' {
		m, ok := node.(map[string]any)
		if !ok {
			m = map[string]any{}
		}
		m[s[1:]] = refSet(m[s[1:]], segs[1:], v)
		return m
	}
	n, _ := strconv.Atoi(s[1:])
	l, ok := node.([]any)
	if !ok {
		l = []any{}
	}
	for len(l) <= n {
		l = append(l, nil)
	}
	l[n] = refSet(l[n], segs[1:], v)
	return l
}

func c11Oracle(c *oracleCtx) {
	// several writes in a row with the tree changed from below in between (nothing about an earlier write may be
	// remembered): compared with the tree the steps must produce
	type script struct {
		id   string
		run  func(root Object)
		want string
	}
	scripts := []script{
		{"unset-between", func(r Object) { r.SetTF(".a.b", 1); r.UnsetTF(".a.b"); r.SetTF(".a.c", 2) }, `{"a":{"c":2}}`},
		{"set-below-between", func(r Object) { r.SetTF(".a.b", 1); r.GetObject("a").Set("b", 7); r.SetTF(".a.c", 2) }, `{"a":{"b":7,"c":2}}`},
		{"parent-removed-between", func(r Object) { r.SetTF(".a.b", 1); r.Unset("a"); r.SetTF(".a.c", 2) }, `{"a":{"c":2}}`},
		{"parent-replaced-between", func(r Object) { r.SetTF(".a.b", 1); r.Set("a", 5); r.SetTF(".a.c", 2) }, `{"a":{"c":2}}`},
		{"parent-swapped-between", func(r Object) { r.SetTF(".a.b", 1); r.Set("a", NewObject("z", 0)); r.SetTF(".a.c", 2) }, `{"a":{"z":0,"c":2}}`},
		{"rows-shift-between", func(r Object) {
			r.SetTF(".rows#0#0", "r0")
			r.SetTF(".rows#1#0", "r1")
			r.GetList("rows").Delete(0)
			r.SetTF(".rows#0#1", "x")
		}, `{"rows":[["r1","x"]]}`},
		{"deep-swapped-between", func(r Object) {
			r.SetTF(".a.b.c", 1)
			r.GetObject("a").Set("b", NewObject("z", 0))
			r.SetTF(".a.b.d", 2)
		}, `{"a":{"b":{"z":0,"d":2}}}`},
		{"same-prefix-thrice", func(r Object) {
			r.SetTF(".p.q.x", 1)
			r.SetTF(".p.q.y", 2)
			r.GetObject("p").Unset("q")
			r.SetTF(".p.q.z", 3)
		}, `{"p":{"q":{"z":3}}}`},
		{"list-cleared-between", func(r Object) { r.SetTF(".l#2", "a"); r.GetList("l").Clear(); r.SetTF(".l#1", "b") }, `{"l":[null,"b"]}`},
		{"unset-then-unset", func(r Object) {
			r.SetTF(".a.b", 1)
			r.SetTF(".a.c", 2)
			r.UnsetTF(".a.b")
			r.GetObject("a").Set("b", 9)
			r.UnsetTF(".a.b")
		}, `{"a":{"c":2}}`},
	}
	for _, sc := range scripts {
		sc := sc
		c.check("script:"+sc.id, true, func() string {
			for _, pre := range []string{`{}`, `{"keep":true}`} {
				root, _ := ParseObject(pre)
				sc.run(root)
				var got, want, extra any
				json.Unmarshal([]byte(root.String()), &got)
				json.Unmarshal([]byte(sc.want), &want)
				json.Unmarshal([]byte(pre), &extra)
				for k, v := range extra.(map[string]any) {
					want.(map[string]any)[k] = v
				}
				if !reflect.DeepEqual(got, want) {
					return fmt.Sprintf("the steps give %s, they must give %s (plus %s)", root.String(), sc.want, pre)
				}
			}
			return ""
		})
	}
	maxLen := 4
	if c.thorough {
		maxLen = 5
	}
	var paths []string
	for _, p := range tfPaths(maxLen) {
		if _, ok := wellFormedWrite(p); ok {
			paths = append(paths, p)
		}
	}
	paths = append(paths, ".a.l#1.c", ".a.l#5", ".a.l#3.x", ".l#0#2", ".n.k", ".s#1", ".a#0", ".l.k", "#0.0#0", "#1#0.a#3", "#2.k", "#3#1", "#5", "#4.a", ".a.b.c", ".new#2.k")
	c.rule = "well-formed tree-form paths (existing, partially existing, new; wrong-kind, nil and missing intermediates; index <, =, > length) on 2 trees: SetTF succeeds, matches the reference write on a native mirror, keeps identities of reused intermediates; UnsetTF removes exactly the addressed entry or leaves the tree unchanged"
	c.bound = fmt.Sprintf("%d paths x 4 trees (2 of them with lists that shrank and keep stale elements in spare capacity) x 3 values, plus UnsetTF on every path", len(paths))
	vals := []any{5, nil, "v"}
	for _, tg := range tfTrees()[:4] {
		_, rootIsList := tg.make().(List)
		for _, p := range paths {
			if (p[0] == '#') != rootIsList {
				continue
			}
			segs, _ := wellFormedWrite(p)
			for vi, v := range vals {
				p, v := p, v
				c.check(fmt.Sprintf("set:%s:%s:%d", tg.id, p, vi), true, func() string {
					root := tg.make()
					before := map[string]any{}
					snapTree(root, "", before)
					want := refSet(native(root), segs, v)
					if catch(func() {
						if l, ok := root.(List); ok {
							l.SetTF(p, v)
						} else {
							root.(Object).SetTF(p, v)
						}
					}) {
						return "SetTF panicked on a well-formed path"
					}
					if got := native(root); !reflect.DeepEqual(got, want) {
						return fmt.Sprintf("tree is %v, reference write gives %v", got, want)
					}
					after := map[string]any{}
					snapTree(root, "", after)
					// intermediates of the right kind on the path are reused
					prefix := ""
					for i, s := range segs[:len(segs)-1] {
						prefix += s
						old, had := before[prefix]
						if !had {
							break
						}
						_, oldIsList := old.(List)
						needList := segs[i+1][0] == '#'
						if oldIsList == needList && after[prefix] != old {
							return "an existing intermediate of the right kind was replaced at " + prefix
						}
					}
					// containers off the path keep their identity
					for k, id := range before {
						if !strings.HasPrefix(p, k) && !strings.HasPrefix(k, p) {
							onReplaced := false
							pre := ""
							for _, s := range segs {
								pre += s
								if strings.HasPrefix(k, pre) && after[pre] != before[pre] {
									onReplaced = true
								}
							}
							if !onReplaced && after[k] != id {
								return "a container off the path changed identity at " + k
							}
						}
					}
					return ""
				})
			}
			p := p
			c.check(fmt.Sprintf("unset:%s:%s", tg.id, p), true, func() string {
				root := tg.make()
				_, ok, _ := tfResolve(root, p)
				want := native(root)
				if ok {
					want = refUnset(want, segs)
				}
				catch(func() {
					if l, isL := root.(List); isL {
						l.UnsetTF(p)
					} else {
						root.(Object).UnsetTF(p)
					}
				})
				if got := native(root); !reflect.DeepEqual(got, want) {
					return fmt.Sprintf("after UnsetTF the tree is %v, expected %v (path resolves: %v)", got, want, ok)
				}
				return ""
			})
		}
	}
}

func refUnset(node any, segs []string) any {
	s := segs[0]
	if s[0] == '.' {
		m := node.(map[string]any)
		if len(segs) == 1 {
			delete(m, s[1:])
		} else {
			m[s[1:]] = refUnset(m[s[1:]], segs[1:])
		}
		return m
	}
	n, _ := strconv.Atoi(s[1:])
	l := node.([]any)
	if len(segs) == 1 {
		return append(append([]any{}, l[:n]...), l[n+1:]...)
	}
	l[n] = refUnset(l[n], segs[1:])
	return l
}

// ---------------------------------------------------------------------------
// C14 / C18 / C17: lists with mixed kinds

func mixedLists(c *oracleCtx) [][]any {
	o1, o2, l1 := NewObject("a", 1), NewObject("b", 2), NewList(9)
	// derived containers (user types embedding List / Object, registered with Init) are Lists / Objects too
	d1, d2, d3 := newDList(5), newDObject("z", 1), newDDList("dd")
	// containers whose own children are containers of both kinds (a view is one level deep: grandchildren are never visited)
	deepO := NewObject("in", NewObject("leaf", 1, "deeper", NewObject("x", "y")), "l", NewList(NewList(3), NewObject("k", 2)), "s", "str", "f", 1.5, "i", 4, "b", true)
	deepL := NewList(NewList(4, NewList("w")), NewObject("q", NewObject("r", 2.5)), "str", 2.5, 6, false)
	atoms := []any{1, -3, 2.5, -0.5, "s", "t", true, false, nil, o1, o2, l1, math.MaxInt, math.MinInt, 7.0, d1, d2, d3, NewList(), NewObject(), deepO, deepL}
	var out [][]any
	out = append(out, []any{})
	for _, a := range atoms {
		out = append(out, []any{a})
		for _, b := range atoms {
			out = append(out, []any{a, b})
		}
	}
	n := 1500
	if c.thorough {
		n = 40000
	}
	for i := 0; i < n; i++ {
		k := 3 + c.rng.Intn(5)
		l := make([]any, k)
		for j := range l {
			l[j] = atoms[c.rng.Intn(len(atoms))]
		}
		out = append(out, l)
	}
	return out
}

func c14Oracle(c *oracleCtx) {
	lists := mixedLists(c)
	c.rule = "lists with every mixture / multiplicity / order of the seven kinds (all of length <= 2, random up to 7): every typed view compared with a reference selection computed through Get/TypeOf; objects likewise over their fields"
	c.bound = fmt.Sprintf("%d lists, %d objects", len(lists), len(lists)/4)
	for idx, src := range lists {
		src := src
		c.check("L:"+show(src), len(src) > 1, func() string {
			l := NewList(src...)
			ref := func(t Type) []any {
				var out []any
				for i := 0; i < l.Count(); i++ {
					if l.TypeOf(i) == t {
						out = append(out, l.Get(i))
					}
				}
				return out
			}
			asAny := func(v any) []any {
				rv := reflect.ValueOf(v)
				out := make([]any, rv.Len())
				for i := range out {
					out[i] = rv.Index(i).Interface()
				}
				return out
			}
			type view struct {
				name string
				t    Type
				get  func() []any
			}
			var log []any
			views := []view{
				{"ObjectSlice", TypeObject, func() []any { return asAny(l.ObjectSlice()) }},
				{"ListSlice", TypeList, func() []any { return asAny(l.ListSlice()) }},
				{"StringSlice", TypeString, func() []any { return asAny(l.StringSlice()) }},
				{"BoolSlice", TypeBool, func() []any { return asAny(l.BoolSlice()) }},
				{"IntSlice", TypeInt, func() []any { return asAny(l.IntSlice()) }},
				{"FloatSlice", TypeFloat, func() []any { return asAny(l.FloatSlice()) }},
				{"ForEachObject", TypeObject, func() []any { log = nil; l.ForEachObject(func(x Object) { log = append(log, x) }); return log }},
				{"ForEachList", TypeList, func() []any { log = nil; l.ForEachList(func(x List) { log = append(log, x) }); return log }},
				{"ForEachString", TypeString, func() []any { log = nil; l.ForEachString(func(x string) { log = append(log, x) }); return log }},
				{"ForEachBool", TypeBool, func() []any { log = nil; l.ForEachBool(func(x bool) { log = append(log, x) }); return log }},
				{"ForEachInt", TypeInt, func() []any { log = nil; l.ForEachInt(func(x int) { log = append(log, x) }); return log }},
				{"ForEachFloat", TypeFloat, func() []any { log = nil; l.ForEachFloat(func(x float64) { log = append(log, x) }); return log }},
				{"MapObjects", TypeObject, func() []any { return snapL(l.MapObjects(func(x Object) any { return x })) }},
				{"MapLists", TypeList, func() []any { return snapL(l.MapLists(func(x List) any { return x })) }},
				{"MapStrings", TypeString, func() []any { return snapL(l.MapStrings(func(x string) any { return x })) }},
				{"MapBools", TypeBool, func() []any { return snapL(l.MapBools(func(x bool) any { return x })) }},
				{"MapInts", TypeInt, func() []any { return snapL(l.MapInts(func(x int) any { return x })) }},
				{"MapFloats", TypeFloat, func() []any { return snapL(l.MapFloats(func(x float64) any { return x })) }},
				{"FilterObjects", TypeObject, func() []any { return snapL(l.FilterObjects(func(Object) bool { return true })) }},
				{"FilterLists", TypeList, func() []any { return snapL(l.FilterLists(func(List) bool { return true })) }},
				{"FilterStrings", TypeString, func() []any { return snapL(l.FilterStrings(func(string) bool { return true })) }},
				{"FilterInts", TypeInt, func() []any { return snapL(l.FilterInts(func(int) bool { return true })) }},
				{"FilterFloats", TypeFloat, func() []any { return snapL(l.FilterFloats(func(float64) bool { return true })) }},
				{"ReduceStrings", TypeString, func() []any {
					log = nil
					l.ReduceStrings("", func(a, b string) string { log = append(log, b); return a })
					return log
				}},
				{"ReduceInts", TypeInt, func() []any {
					log = nil
					l.ReduceInts(0, func(a, b int) int { log = append(log, b); return a })
					return log
				}},
				{"ReduceFloats", TypeFloat, func() []any {
					log = nil
					l.ReduceFloats(0, func(a, b float64) float64 { log = append(log, b); return a })
					return log
				}},
			}
			for _, v := range views {
				if got, want := v.get(), ref(v.t); !sameSeq(got, want) {
					return fmt.Sprintf("%s = %s, elements of that kind are %s", v.name, show(got), show(want))
				}
			}
			all := func(t Type) bool { return len(ref(t)) == l.Count() }
			if l.AllObjects() != all(TypeObject) || l.AllLists() != all(TypeList) || l.AllStrings() != all(TypeString) || l.AllBools() != all(TypeBool) || l.AllInts() != all(TypeInt) || l.AllFloats() != all(TypeFloat) {
				return "an All* predicate disagrees with TypeOf"
			}
			if l.AllNumeric() != (len(ref(TypeInt))+len(ref(TypeFloat)) == l.Count()) {
				return "AllNumeric disagrees with TypeOf"
			}
			// untyped variants: every element once, in order, with index and Get value
			var idxs []int
			var vals []any
			l.ForEach(func(i int, v any) { idxs = append(idxs, i); vals = append(vals, v) })
			for i := range idxs {
				if idxs[i] != i {
					return "ForEach passes a wrong index"
				}
			}
			if !sameSeq(vals, snapL(l)) {
				return "ForEach does not visit every element once in order"
			}
			vals = nil
			l.ForEachValue(func(v any) { vals = append(vals, v) })
			if !sameSeq(vals, snapL(l)) {
				return "ForEachValue does not visit every element once in order"
			}
			if !sameSeq(snapL(l.Map(func(i int, v any) any { return v })), snapL(l)) || !sameSeq(snapL(l.MapValues(func(v any) any { return v })), snapL(l)) {
				return "Map/MapValues do not reproduce the list under the identity function"
			}
			if !sameSeq(snapL(l.Filter(func(any) bool { return true })), snapL(l)) {
				return "Filter(true) does not reproduce the list"
			}
			vals = nil
			l.Reduce(nil, func(acc, v any) any { vals = append(vals, v); return acc })
			if !sameSeq(vals, snapL(l)) {
				return "Reduce does not visit every element once in order"
			}
			return ""
		})
		if idx%4 == 0 {
			c.check("O:"+show(src), len(src) > 1, func() string {
				o := NewObject()
				for i, v := range src {
					o.Set("k"+strconv.Itoa(i), v)
				}
				kinds := map[Type]func(func(string, any)){}
				_ = kinds
				count := func(t Type) map[string]any {
					m := map[string]any{}
					o.ForEach(func(k string, v any) {
						if o.TypeOf(k) == t {
							m[k] = v
						}
					})
					return m
				}
				type ov struct {
					name string
					t    Type
					get  func() map[string]any
				}
				ovs := []ov{
					{"MapObjects", TypeObject, func() map[string]any { return snapO(o.MapObjects(func(x Object) any { return x })) }},
					{"MapLists", TypeList, func() map[string]any { return snapO(o.MapLists(func(x List) any { return x })) }},
					{"MapStrings", TypeString, func() map[string]any { return snapO(o.MapStrings(func(x string) any { return x })) }},
					{"MapBools", TypeBool, func() map[string]any { return snapO(o.MapBools(func(x bool) any { return x })) }},
					{"MapInts", TypeInt, func() map[string]any { return snapO(o.MapInts(func(x int) any { return x })) }},
					{"MapFloats", TypeFloat, func() map[string]any { return snapO(o.MapFloats(func(x float64) any { return x })) }},
				}
				for _, v := range ovs {
					if got, want := v.get(), count(v.t); !sameMap(got, want) {
						return fmt.Sprintf("object %s = %s, fields of that kind are %s", v.name, showM(got), showM(want))
					}
				}
				n := map[Type]int{}
				o.ForEachObject(func(Object) { n[TypeObject]++ })
				o.ForEachList(func(List) { n[TypeList]++ })
				o.ForEachString(func(string) { n[TypeString]++ })
				o.ForEachBool(func(bool) { n[TypeBool]++ })
				o.ForEachInt(func(int) { n[TypeInt]++ })
				o.ForEachFloat(func(float64) { n[TypeFloat]++ })
				for _, t := range []Type{TypeObject, TypeList, TypeString, TypeBool, TypeInt, TypeFloat} {
					if k := n[t]; k != len(count(t)) {
						return fmt.Sprintf("object ForEach of kind %d visits %d fields, there are %d", t, k, len(count(t)))
					}
				}
				// and with the right values
				vo, vl := map[any]int{}, map[any]int{}
				o.ForEachObject(func(x Object) { vo[x]++ })
				o.ForEachList(func(x List) { vl[x]++ })
				for _, v := range count(TypeObject) {
					if vo[v] == 0 {
						return "object ForEachObject misses a field of kind object (identity)"
					}
				}
				for _, v := range count(TypeList) {
					if vl[v] == 0 {
						return "object ForEachList misses a field of kind list (identity)"
					}
				}
				seen := map[string]int{}
				o.ForEach(func(k string, v any) {
					seen[k]++
					if !same(v, o.Get(k)) {
						seen[k] += 100
					}
				})
				for k, n := range seen {
					if n != 1 {
						return "object ForEach visits key " + k + " wrongly"
					}
				}
				if len(seen) != o.Count() {
					return "object ForEach misses fields"
				}
				if !sameMap(snapO(o.Map(func(k string, v any) any { return v })), snapO(o)) || !sameMap(snapO(o.MapValues(func(v any) any { return v })), snapO(o)) {
					return "object Map/MapValues do not reproduce the fields under the identity function"
				}
				return ""
			})
		}
	}
}

func c18Oracle(c *oracleCtx) {
	c.rule = "numeric lists (ints, finite floats, boundaries, negatives, singletons) and mixed lists for the Int* family, compared with reference left folds in float64 / wrapping int arithmetic"
	ints := []int{0, 1, -1, 5, -7, math.MaxInt, math.MinInt, 1 << 32}
	floats := []float64{0.5, -2.5, 1e16, 1, -1e300, 3}
	var lists [][]any
	lists = append(lists, []any{})
	atoms := []any{}
	for _, i := range ints {
		atoms = append(atoms, i)
	}
	for _, f := range floats {
		atoms = append(atoms, f)
	}
	for _, a := range atoms {
		lists = append(lists, []any{a})
		for _, b := range atoms {
			lists = append(lists, []any{a, b})
			lists = append(lists, []any{a, b, a})
		}
	}
	n := 3000
	if c.thorough {
		n = 60000
	}
	for i := 0; i < n; i++ {
		k := 3 + c.rng.Intn(4)
		l := make([]any, k)
		for j := range l {
			l[j] = atoms[c.rng.Intn(len(atoms))]
		}
		lists = append(lists, l)
	}
	c.bound = fmt.Sprintf("%d numeric lists (all of length <= 2 over 14 atoms, length-3 patterns, random up to 6), each also interleaved with non-numeric elements for Int*", len(lists))
	for _, src := range lists {
		src := src
		c.check(show(src), len(src) > 0, func() string {
			l := NewList(src...)
			before := snapL(l)
			sum, prod := 0.0, 1.0
			mn, mx := math.MaxFloat64, -math.MaxFloat64
			isum, iprod, imin, imax, nint := 0, 1, math.MaxInt, math.MinInt, 0
			for _, v := range src {
				var f float64
				switch x := v.(type) {
				case int:
					f = float64(x)
					isum += x
					iprod *= x
					nint++
					if x < imin {
						imin = x
					}
					if x > imax {
						imax = x
					}
				case float64:
					f = x
				}
				sum += f
				prod *= f
				if f < mn {
					mn = f
				}
				if f > mx {
					mx = f
				}
			}
			eq := func(a, b float64) bool { return a == b || (math.IsNaN(a) && math.IsNaN(b)) }
			if len(src) == 0 {
				mn, mx = 0, 0
			}
			if nint == 0 {
				imin, imax = 0, 0
			}
			if !eq(l.Sum(), sum) || !eq(l.Prod(), prod) {
				return fmt.Sprintf("Sum/Prod = %v/%v, reference folds %v/%v", l.Sum(), l.Prod(), sum, prod)
			}
			if !eq(l.Min(), mn) || !eq(l.Max(), mx) {
				return fmt.Sprintf("Min/Max = %v/%v, reference %v/%v", l.Min(), l.Max(), mn, mx)
			}
			if len(src) > 0 && !eq(l.Avg(), sum/float64(len(src))) {
				return "Avg differs from Sum/Count"
			}
			mixed := NewList("x")
			for _, v := range src {
				mixed.Add(v, nil, "s", 2.5)
			}
			for _, t := range []List{l, mixed} {
				if t.IntSum() != isum || t.IntProd() != iprod || t.IntMin() != imin || t.IntMax() != imax {
					return fmt.Sprintf("IntSum/IntProd/IntMin/IntMax = %d/%d/%d/%d, reference %d/%d/%d/%d", t.IntSum(), t.IntProd(), t.IntMin(), t.IntMax(), isum, iprod, imin, imax)
				}
			}
			if !sameSeq(before, snapL(l)) {
				return "list modified by an aggregate"
			}
			return ""
		})
	}
}

func c17Oracle(c *oracleCtx) {
	c.rule = "homogeneous string / int / float lists of length 1..6 over extreme values and duplicates, and lists of any kinds for Reverse: sorted, permutation of the multiset, same list object, idempotent; Reverse moves i to n-1-i; Sort on a wrong first element panics and leaves the list unchanged"
	ints := []any{0, 1, -1, 2, math.MaxInt, math.MinInt, -2, math.MaxInt - 1, 1<<53 + 1, 1 << 53}
	strs := []any{"", "a", "b", "é", "B", "aa", "\xff", "\xc3"}
	flts := []any{0.0, math.Copysign(0, -1), 1.5, -1.5, math.Inf(1), math.Inf(-1), 1e300}
	n := 0
	for _, dom := range [][]any{ints, strs, flts} {
		dom := dom
		var gen func(cur []any, d int)
		maxd := 4
		if c.thorough {
			maxd = 5
		}
		gen = func(cur []any, d int) {
			if len(cur) > 0 {
				src := append([]any{}, cur...)
				n++
				c.check("sort:"+show(src), len(src) > 1, func() string {
					l := NewList(src...)
					r := l.Sort()
					if r != l {
						return "Sort did not return the same list"
					}
					got := snapL(l)
					want := append([]any{}, src...)
					sort.SliceStable(want, func(i, j int) bool {
						switch a := want[i].(type) {
						case int:
							return a < want[j].(int)
						case string:
							return a < want[j].(string)
						}
						return want[i].(float64) < want[j].(float64)
					})
					if len(got) != len(want) {
						return "Sort changed the length"
					}
					for i := range got {
						if got[i] != want[i] && !(reflect.TypeOf(got[i]) == reflect.TypeOf(want[i]) && fmt.Sprint(got[i]) == fmt.Sprint(want[i])) {
							if gf, ok := got[i].(float64); ok && gf == want[i].(float64) {
								continue
							}
							return fmt.Sprintf("Sort gives %s, sorted multiset is %s", show(got), show(want))
						}
					}
					// the multiset is kept exactly: the two float zeros are different values of it
					bits := func(vs []any) map[uint64]int {
						m := map[uint64]int{}
						for _, v := range vs {
							if f, ok := v.(float64); ok {
								m[math.Float64bits(f)]++
							}
						}
						return m
					}
					if !reflect.DeepEqual(bits(got), bits(src)) {
						return fmt.Sprintf("Sort changed the multiset of floats: %s from %s (signs of zero)", show(got), show(src))
					}
					l.Sort()
					if !sameSeq(snapL(l), got) {
						return "sorting twice differs from sorting once"
					}
					return ""
				})
			}
			if d == maxd {
				return
			}
			for _, a := range dom {
				gen(append(cur, a), d+1)
			}
		}
		gen(nil, 0)
	}
	any7 := []any{1, "s", nil, true, 2.5, NewList(1), NewObject("a", 1)}
	for k := 0; k <= 7; k++ {
		src := append([]any{}, any7[:k]...)
		c.check("rev:"+strconv.Itoa(k), k > 1, func() string {
			l := NewList(src...)
			if l.Reverse() != l {
				return "Reverse did not return the same list"
			}
			got := snapL(l)
			for i := range src {
				if !same(got[len(src)-1-i], src[i]) {
					return fmt.Sprintf("Reverse of %s is %s", show(src), show(got))
				}
			}
			l.Reverse()
			if !sameSeq(snapL(l), src) {
				return "reversing twice does not restore the list"
			}
			return ""
		})
	}
	// Sort after other operations on the same list (anything remembered about an earlier Sort must not survive them)
	{
		type hop struct {
			name string
			f    func(l List, m *[]any, fresh any)
		}
		hops := []hop{
			{"Sort", func(l List, m *[]any, _ any) {
				l.Sort()
				sort.SliceStable(*m, func(i, j int) bool { return fmt.Sprint((*m)[i]) < fmt.Sprint((*m)[j]) && false })
				sortModel(*m)
			}},
			{"Reverse", func(l List, m *[]any, _ any) {
				l.Reverse()
				for i, j := 0, len(*m)-1; i < j; i, j = i+1, j-1 {
					(*m)[i], (*m)[j] = (*m)[j], (*m)[i]
				}
			}},
			{"Add", func(l List, m *[]any, v any) { l.Add(v); *m = append(*m, v) }},
			{"Insert0", func(l List, m *[]any, v any) { l.Insert(0, v); *m = append([]any{v}, *m...) }},
			{"InsertEnd", func(l List, m *[]any, v any) { l.Insert(len(*m), v); *m = append(*m, v) }},
			{"Replace0", func(l List, m *[]any, v any) {
				if len(*m) > 0 {
					l.Replace(0, v)
					(*m)[0] = v
				}
			}},
			{"Pop", func(l List, m *[]any, _ any) {
				if len(*m) > 1 {
					l.Pop()
					*m = (*m)[:len(*m)-1]
				}
			}},
			{"SetTF", func(l List, m *[]any, v any) {
				if len(*m) > 0 {
					l.SetTF("#0", v)
					(*m)[0] = v
				}
			}},
		}
		starts := [][]any{{3, 1, 2}, {"b", "c", "a"}, {2.5, -1.0, 7.0}, {2, 2, 1}}
		fresh := []any{0, "aa", -3.5, 5}
		for si, st := range starts {
			for _, h1 := range hops {
				for _, h2 := range hops {
					for _, h3 := range hops[:3] {
						si, st, h1, h2, h3 := si, st, h1, h2, h3
						n++
						c.check(fmt.Sprintf("sorthist:%d:%s,%s,%s", si, h1.name, h2.name, h3.name), true, func() string {
							l := NewList(st...)
							m := append([]any{}, st...)
							for _, h := range []hop{h1, h2, h3} {
								h.f(l, &m, fresh[si])
							}
							l.Sort()
							sortModel(m)
							if !histSameSeq(snapL(l), m) {
								return fmt.Sprintf("after %s,%s,%s Sort gives %s, want %s", h1.name, h2.name, h3.name, show(snapL(l)), show(m))
							}
							return ""
						})
					}
				}
			}
		}
	}
	for i, first := range []any{nil, true, NewList(), NewObject()} {
		first := first
		c.check("sortpanic:"+strconv.Itoa(i), true, func() string {
			l := NewList(first, 2, 1)
			before := snapL(l)
			if !catch(func() { l.Sort() }) {
				return "Sort did not panic on a list whose first element is not string/int/float"
			}
			if !sameSeq(before, snapL(l)) {
				return "a panicking Sort changed the list"
			}
			return ""
		})
	}
	c.bound = fmt.Sprintf("%d homogeneous lists (all of length <= 4/5 over 6-7 values per kind), 8 reversals, 4 panicking sorts", n)
}

// sortModel sorts a homogeneous model slice (ints, strings or floats) the way Sort is specified to
func sortModel(m []any) {
	sort.SliceStable(m, func(i, j int) bool {
		switch a := m[i].(type) {
		case int:
			return a < m[j].(int)
		case string:
			return a < m[j].(string)
		case float64:
			return a < m[j].(float64)
		}
		return false
	})
}

// ---------------------------------------------------------------------------
// C19: derived types

type dList struct {
	List
	tag string
}
type ddList struct {
	*dList
	extra int
}
type dObject struct {
	Object
	tag string
}

func newDList(vals ...any) *dList {
	d := &dList{List: NewList(vals...), tag: "d"}
	d.Init(d)
	return d
}
func newDDList(vals ...any) *ddList {
	d := &ddList{dList: &dList{List: NewList(vals...)}, extra: 1}
	d.Init(d)
	return d
}

// two embedding levels with the inner level registered first (the README's Animal / Dog construction):
// the later Init of the outer value must win
type ddObject struct {
	*dObject
	extra int
}

func newDDObject(vals ...any) *ddObject {
	inner := newDObject(vals...) // registers the inner value
	d := &ddObject{dObject: inner, extra: 1}
	d.Init(d) // re-registers: from now on the outer value is the ego
	return d
}
func newDDListInnerFirst(vals ...any) *ddList {
	inner := newDList(vals...)
	d := &ddList{dList: inner, extra: 2}
	d.Init(d)
	return d
}

func newDObject(vals ...any) *dObject {
	d := &dObject{Object: NewObject(vals...), tag: "d"}
	d.Init(d)
	return d
}

// everyStorePath: a container is stored as is (same identity, derived type kept) by every entry point
func everyStorePath(c *oracleCtx) {
	c.check("retrieval:every-store-path", true, func() string {
		// a container is stored as is by every entry point, also when it reaches the container inside a native slice / map
		for _, pair := range [][2]any{{newDList(1), newDObject("k", 1)}, {newDDListInnerFirst(1), newDDObject("k", 1)}, {NewList(1), NewObject("k", 1)}} {
			dl, do := pair[0].(List), pair[1].(Object)
			lists := map[string]List{
				"NewList": NewList(dl, do), "Add": NewList().Add(dl, do), "Insert": NewList(0).Insert(0, do).Insert(0, dl), "Replace": NewList(0, 0).Replace(0, dl).Replace(1, do),
				"SetTF": NewList().SetTF("#0", dl).SetTF("#1", do), "NewListFrom[]any": NewListFrom([]any{dl, do}), "Add([]any)": NewList().Add([]any{dl, do}).GetList(0),
				"NewList([]any)": NewList([]any{dl, do}).GetList(0), "Set(k,[]any)": NewObject("z", []any{dl, do}).GetList("z"), "Concat": NewList().Concat(NewList(dl, do)),
				"SubList":       NewList(dl, do, 1).SubList(0, 2),
				"nested-native": NewListFrom([]any{[]any{dl, do}}).GetList(0),
			}
			for name, l := range lists {
				if l.Get(0) != any(dl) || l.GetList(0) != dl || l.Get(1) != any(do) || l.GetObject(1) != do {
					return name + ": a stored container is not handed back identically"
				}
			}
			if l := NewListFrom([]List{dl, dl}); l.Get(0) != any(dl) || l.GetList(1) != dl {
				return "NewListFrom([]List): a stored list is not handed back identically"
			}
			if l := NewListFrom([]Object{do}); l.Get(0) != any(do) || l.GetObject(0) != do || NewList([]Object{do}).GetList(0).GetObject(0) != do {
				return "NewListFrom([]Object): a stored object is not handed back identically"
			}
			objs := map[string]Object{
				"NewObject": NewObject("l", dl, "o", do), "Set": NewObject().Set("l", dl, "o", do), "SetTF": NewObject().SetTF(".l", dl).SetTF(".o", do),
				"NewObjectFrom[any]": NewObjectFrom(map[string]any{"l": dl, "o": do}), "Set(k,map)": NewObject("z", map[string]any{"l": dl, "o": do}).GetObject("z"),
				"Add(map)": NewList(map[string]any{"l": dl, "o": do}).GetObject(0), "Merge": NewObject().Merge(NewObject("l", dl, "o", do)), "Pluck": NewObject("l", dl, "o", do, "x", 1).Pluck("l", "o"),
				"nested-native": NewObjectFrom(map[string]any{"in": map[string]any{"l": dl, "o": do}}).GetObject("in"),
			}
			for name, o := range objs {
				if o.Get("l") != any(dl) || o.GetList("l") != dl || o.Get("o") != any(do) || o.GetObject("o") != do {
					return name + ": a stored container is not handed back identically"
				}
			}
			if o := NewObjectFrom(map[string]List{"l": dl}); o.Get("l") != any(dl) || NewObject("m", map[string]List{"l": dl}).GetObject("m").GetList("l") != dl {
				return "NewObjectFrom(map[string]List): a stored list is not handed back identically"
			}
			if o := NewObjectFrom(map[string]Object{"o": do}); o.Get("o") != any(do) || NewList(map[string]Object{"o": do}).GetObject(0).GetObject("o") != do {
				return "NewObjectFrom(map[string]Object): a stored object is not handed back identically"
			}
		}
		return ""
	})
}

func c19Oracle(c *oracleCtx) {
	c.rule = "derived types embedding List/Object (one and two levels) registered with Init: every fluent method must return the registered outer value on representative arguments (incl. already sorted lists, nested tree-form paths), Ego returns it, and every retrieval path hands back the identical outer value"
	type lcase struct {
		id string
		f  func(l List) any
	}
	noop := func(int, any) {}
	lcases := []lcase{
		{"Add", func(l List) any { return l.Add(1) }}, {"Add0", func(l List) any { return l.Add() }},
		{"Insert0", func(l List) any { return l.Insert(0, 1) }}, {"InsertEnd", func(l List) any { return l.Insert(l.Count(), 1) }},
		{"Replace", func(l List) any { return l.Replace(0, 5) }}, {"Delete", func(l List) any { return l.Delete(0) }},
		{"Delete2", func(l List) any { return l.Delete(0, 1) }}, {"Pop", func(l List) any { return l.Pop() }},
		{"Clear", func(l List) any { return l.Clear() }}, {"SortUnsorted", func(l List) any { return l.Sort() }},
		{"SortSorted", func(l List) any { return l.Sort().Sort() }}, {"SortSingle", func(l List) any { return l.Clear().Add(1).Sort() }},
		{"SortStrings", func(l List) any { return l.Clear().Add("b", "a").Sort() }}, {"SortFloats", func(l List) any { return l.Clear().Add(1.5, 0.5).Sort() }},
		{"SortMixedIntFirst", func(l List) any { return l.Clear().Add(2, 1.5, 1).Sort() }}, {"SortMixedFloatFirst", func(l List) any { return l.Clear().Add(2.5, 1, 0.5, 3).Sort() }},
		{"SortWithIgnored", func(l List) any { return l.Clear().Add("b", 1, nil, "a", true).Sort() }}, {"SortEqualNumbers", func(l List) any { return l.Clear().Add(1, 1.0, 1).Sort() }},
		{"Reverse", func(l List) any { return l.Reverse() }}, {"Reverse1", func(l List) any { return l.Clear().Add(1).Reverse() }},
		{"ForEach", func(l List) any { return l.ForEach(noop) }}, {"ForEachValue", func(l List) any { return l.ForEachValue(func(any) {}) }},
		{"ForEachObject", func(l List) any { return l.ForEachObject(func(Object) {}) }}, {"ForEachList", func(l List) any { return l.ForEachList(func(List) {}) }},
		{"ForEachString", func(l List) any { return l.ForEachString(func(string) {}) }}, {"ForEachBool", func(l List) any { return l.ForEachBool(func(bool) {}) }},
		{"ForEachInt", func(l List) any { return l.ForEachInt(func(int) {}) }}, {"ForEachFloat", func(l List) any { return l.ForEachFloat(func(float64) {}) }},
		{"ForEachAsync", func(l List) any { return l.ForEachAsync(noop) }},
		{"SetTFleaf", func(l List) any { return l.SetTF("#0", 1) }}, {"SetTFpad", func(l List) any { return l.SetTF("#7", 1) }},
		{"SetTFobj", func(l List) any { return l.SetTF("#1.a.b", 1) }}, {"SetTFlist", func(l List) any { return l.SetTF("#1#0#1", 1) }},
		{"UnsetTFleaf", func(l List) any { return l.UnsetTF("#0") }},
		{"UnsetTFobj", func(l List) any { return l.SetTF("#0.a.b", 1).UnsetTF("#0.a.b") }},
		{"UnsetTFlist", func(l List) any { return l.SetTF("#0#0#0", 1).UnsetTF("#0#0#0") }},
	}
	for _, lc := range lcases {
		lc := lc
		c.check("list1:"+lc.id, true, func() string {
			d := newDList(3, 1, 2)
			if got := lc.f(d); got != any(d) {
				return fmt.Sprintf("%s returned %T instead of the registered derived value", lc.id, got)
			}
			if d.Ego() != List(d) {
				return "Ego does not return the registered value"
			}
			return ""
		})
		c.check("list3:"+lc.id, true, func() string {
			d := newDDListInnerFirst(3, 1, 2)
			if got := lc.f(d); got != any(d) {
				return fmt.Sprintf("%s returned %T instead of the value registered last (two levels, inner registered first)", lc.id, got)
			}
			if d.Ego() != List(d) {
				return "Ego does not return the value registered last"
			}
			return ""
		})
		c.check("list2:"+lc.id, true, func() string {
			d := newDDList(3, 1, 2)
			if got := lc.f(d); got != any(d) {
				return fmt.Sprintf("%s returned %T instead of the registered two-level derived value", lc.id, got)
			}
			return ""
		})
	}
	type ocase struct {
		id string
		f  func(o Object) any
	}
	ocases := []ocase{
		{"Set", func(o Object) any { return o.Set("k", 1) }}, {"Set0", func(o Object) any { return o.Set() }}, {"Unset", func(o Object) any { return o.Unset("a") }},
		{"UnsetMissing", func(o Object) any { return o.Unset("zz") }}, {"Clear", func(o Object) any { return o.Clear() }},
		{"ForEach", func(o Object) any { return o.ForEach(func(string, any) {}) }}, {"ForEachValue", func(o Object) any { return o.ForEachValue(func(any) {}) }},
		{"ForEachObject", func(o Object) any { return o.ForEachObject(func(Object) {}) }}, {"ForEachList", func(o Object) any { return o.ForEachList(func(List) {}) }},
		{"ForEachString", func(o Object) any { return o.ForEachString(func(string) {}) }}, {"ForEachBool", func(o Object) any { return o.ForEachBool(func(bool) {}) }},
		{"ForEachInt", func(o Object) any { return o.ForEachInt(func(int) {}) }}, {"ForEachFloat", func(o Object) any { return o.ForEachFloat(func(float64) {}) }},
		{"ForEachAsync", func(o Object) any { return o.ForEachAsync(func(string, any) {}) }},
		{"SetTFleaf", func(o Object) any { return o.SetTF(".x", 1) }}, {"SetTFobj", func(o Object) any { return o.SetTF(".p.q.r", 1) }},
		{"SetTFlist", func(o Object) any { return o.SetTF(".p#2.q", 1) }},
		{"UnsetTFleaf", func(o Object) any { return o.UnsetTF(".a") }},
		{"UnsetTFobj", func(o Object) any { return o.SetTF(".p.q.r", 1).UnsetTF(".p.q.r") }},
		{"UnsetTFobj2", func(o Object) any { return o.SetTF(".p.q", 1).UnsetTF(".p.q") }},
		{"UnsetTFlist", func(o Object) any { return o.SetTF(".p#0.q", 1).UnsetTF(".p#0.q") }},
	}
	for _, oc := range ocases {
		oc := oc
		c.check("obj:"+oc.id, true, func() string {
			d := newDObject("a", 1, "b", "x")
			if got := oc.f(d); got != any(d) {
				return fmt.Sprintf("%s returned %T instead of the registered derived value", oc.id, got)
			}
			if d.Ego() != Object(d) {
				return "Ego does not return the registered value"
			}
			return ""
		})
	}
	for _, oc := range ocases {
		oc := oc
		c.check("obj2:"+oc.id, true, func() string {
			d := newDDObject("a", 1, "b", "x")
			if got := oc.f(d); got != any(d) {
				return fmt.Sprintf("%s returned %T instead of the value registered last (two levels, inner registered first)", oc.id, got)
			}
			if d.Ego() != Object(d) {
				return "Ego does not return the value registered last"
			}
			return ""
		})
	}
	c.check("retrieval:stored-before-init", true, func() string {
		// a constructor that enrols the new value in a registry before it calls Init (the value is its own
		// outer value from the start, Init only confirms it)
		regL, regO := NewList(), NewObject()
		d := &dObject{Object: NewObject("k", 1), tag: "early"}
		regL.Add(d)
		regO.Set("d", d)
		d.Init(d)
		dl := &dList{List: NewList(1), tag: "early"}
		regL.Add(dl)
		regO.Set("dl", dl)
		dl.Init(dl)
		if regL.ObjectSlice()[0] != Object(d) || regL.ListSlice()[0] != List(dl) || regL.Get(0) != any(d) || regL.GetList(1) != List(dl) || regO.Get("d") != any(d) || regO.GetList("dl") != List(dl) {
			return "a derived value stored before its Init call is not handed back identically"
		}
		var so Object
		var sl List
		regL.ForEachObject(func(x Object) { so = x })
		regL.ForEachList(func(x List) { sl = x })
		if so != Object(d) || sl != List(dl) || regL.FilterObjects(func(Object) bool { return true }).Get(0) != any(d) {
			return "typed iteration over a value stored before its Init call hands back another value"
		}
		return ""
	})
	everyStorePath(c)
	c.check("identity-after-panic", true, func() string {
		// a rejected call (recovered by the caller) leaves the registration alone: afterwards every fluent method and every
		// retrieval still hands back the registered outer value
		for depth := 1; depth <= 2; depth++ {
			var do Object = newDObject("a", 1, "b", "x")
			var dl List = newDList(3, 1, 2)
			if depth == 2 {
				do, dl = newDDObject("a", 1, "b", "x"), newDDListInnerFirst(3, 1, 2)
			}
			holderL, holderO := NewList(do, dl), NewObject("o", do, "l", dl)
			for i, f := range []func(){
				func() { do.Set("p", 1, 5, 2) }, func() { do.Set("p", 1, "q", struct{}{}) }, func() { do.Set("p", 1, "q", 2, "odd") }, func() { do.Set("only") },
				func() { do.SetTF(".a.b.c", 1) }, func() { do.SetTF("bad", 1) }, func() { do.UnsetTF(".zz.y") }, func() { do.Pluck("a", "missing") }, func() { do.Merge(nil) }, func() { do.GetList("a") },
				func() { dl.Add(1, struct{}{}, 2) }, func() { dl.Insert(99, 1) }, func() { dl.Insert(0, struct{}{}) }, func() { dl.Replace(99, 1) }, func() { dl.Delete(0, 99) }, func() { dl.Delete(-1) },
				func() { dl.SetTF("#x", 1) }, func() { dl.UnsetTF("#99") }, func() { dl.SubList(2, 1) }, func() { dl.GetObject(0) }, func() { dl.Concat(nil) },
			} {
				catch(f)
				if do.Ego() != do || do.Set("z", i) != do || do.Unset("z") != do || do.ForEachInt(func(int) {}) != do || do.SetTF(".t", 1) != do || do.UnsetTF(".t") != do {
					return fmt.Sprintf("depth %d: after rejected call #%d the fluent methods of the derived object no longer return the registered value", depth, i)
				}
				if dl.Ego() != dl || dl.Add(0) != dl || dl.Delete(dl.Count()-1) != dl || dl.Reverse() != dl || dl.ForEachInt(func(int) {}) != dl || dl.SetTF("#0", 1) != dl {
					return fmt.Sprintf("depth %d: after rejected call #%d the fluent methods of the derived list no longer return the registered value", depth, i)
				}
				if holderL.Get(0) != any(do) || holderL.GetList(1) != dl || holderO.GetObject("o") != do || holderO.Get("l") != any(dl) || holderO.GetTF(".o") != any(do) {
					return fmt.Sprintf("depth %d: after rejected call #%d a holder hands back another value", depth, i)
				}
			}
		}
		return ""
	})
	c.check("retrieval:listof", true, func() string {
		dl, do := newDList(1), newDObject("k", 1)
		for n := 1; n <= 3; n++ {
			ll, lo := NewListOf(dl, n), NewListOf(do, n)
			for i := 0; i < n; i++ {
				if ll.Get(i) != any(dl) || ll.GetList(i) != List(dl) || lo.Get(i) != any(do) || lo.GetObject(i) != Object(do) || ll.GetTF("#"+strconv.Itoa(i)) != any(dl) {
					return fmt.Sprintf("NewListOf(derived, %d): position %d does not hold the identical derived value", n, i)
				}
			}
		}
		return ""
	})
	c.check("retrieval2", true, func() string {
		dl, do := newDDListInnerFirst(1), newDDObject("k", 1)
		l := NewList(dl, do)
		o := NewObject("l", dl, "o", do)
		if l.Get(0) != any(dl) || l.GetObject(1) != Object(do) || o.Get("o") != any(do) || o.GetList("l") != List(dl) || o.GetTF(".o") != any(do) || l.ObjectSlice()[0] != Object(do) {
			return "a stored two-level derived value is not handed back identically"
		}
		return ""
	})
	c.check("retrieval", true, func() string {
		dl, do := newDList(1), newDObject("k", 1)
		l := NewList(dl, do)
		o := NewObject("l", dl, "o", do, "n", NewList(dl))
		checks := []struct {
			name string
			got  any
			want any
		}{
			{"List.Get", l.Get(0), dl}, {"List.GetList", l.GetList(0), dl}, {"List.GetObject", l.GetObject(1), do},
			{"Object.Get", o.Get("l"), dl}, {"Object.GetList", o.GetList("l"), dl}, {"Object.GetObject", o.GetObject("o"), do},
			{"List.GetTF", l.GetTF("#0"), dl}, {"Object.GetTF", o.GetTF(".o"), do}, {"nested GetTF", o.GetTF(".n#0"), dl},
			{"ListSlice", l.ListSlice()[0], dl}, {"ObjectSlice", l.ObjectSlice()[0], do},
			{"FilterLists", l.FilterLists(func(List) bool { return true }).Get(0), dl}, {"FilterObjects", l.FilterObjects(func(Object) bool { return true }).Get(0), do},
			{"Slice", l.Slice()[0], dl}, {"Dict", o.Dict()["o"], do}, {"Values", o.Pluck("l").Values().Get(0), dl},
		}
		for _, ck := range checks {
			if ck.got != ck.want {
				return fmt.Sprintf("%s hands back %T instead of the identical stored derived value", ck.name, ck.got)
			}
		}
		var seenL List
		var seenO Object
		l.ForEachList(func(x List) { seenL = x })
		l.ForEachObject(func(x Object) { seenO = x })
		if seenL != List(dl) || seenO != Object(do) {
			return "typed iteration does not hand back the stored derived value"
		}
		o.ForEachList(func(x List) {
			if x != List(dl) && x.Count() != 1 {
				seenL = nil
			}
		})
		return ""
	})
	c.bound = fmt.Sprintf("%d list cases x 2 embedding depths, %d object cases, 16 retrieval paths", len(lcases), len(ocases))
}

// ---------------------------------------------------------------------------
// C15: async variants under whatever schedules the runtime produces (bounded; no schedule control)

var finishOrderPatience = 10 * time.Second

func c15Oracle(c *oracleCtx) {
	c.rule = "ForEachAsync / MapAsync on containers of size 0..9 under GOMAXPROCS 1, 2, 8 with callbacks that yield, repeated; invocation multiset, completion before return, MapAsync == Map; concurrent read-only calls on a shared container; ForEachAsync under every finishing order of the callbacks for n <= 4"
	reps := 30
	if c.thorough {
		reps = 400
	}
	c.bound = fmt.Sprintf("sizes 0..9 x 3 GOMAXPROCS x %d repetitions (schedules are whatever the runtime produces: bounded, not exhaustive); all 32 finishing orders of 2..4 callbacks, list and object side", reps)
	old := runtime.GOMAXPROCS(0)
	defer runtime.GOMAXPROCS(old)
	for _, procs := range []int{1, 2, 8} {
		runtime.GOMAXPROCS(procs)
		for n := 0; n <= 9; n++ {
			n, procs := n, procs
			c.check(fmt.Sprintf("list:%d:%d", procs, n), n > 1, func() string {
				for r := 0; r < reps; r++ {
					l := NewList()
					for i := 0; i < n; i++ {
						l.Add(i * 10)
					}
					var mu sync.Mutex
					seen := map[int]int{}
					done := 0
					l.ForEachAsync(func(i int, v any) {
						runtime.Gosched()
						mu.Lock()
						if v == i*10 {
							seen[i]++
						} else {
							seen[-1]++
						}
						mu.Unlock()
						runtime.Gosched()
						mu.Lock()
						done++
						mu.Unlock()
					})
					mu.Lock()
					d := done
					mu.Unlock()
					if d != n || len(seen) != n || seen[-1] != 0 {
						return fmt.Sprintf("ForEachAsync: %d of %d callbacks had returned, pairs seen %v", d, n, seen)
					}
					f := func(i int, v any) any { runtime.Gosched(); return v.(int) + i }
					if !l.MapAsync(f).Equals(l.Map(f)) {
						return "MapAsync differs from Map"
					}
					o := NewObject()
					for i := 0; i < n; i++ {
						o.Set("k"+strconv.Itoa(i), i)
					}
					cnt := 0
					o.ForEachAsync(func(k string, v any) {
						runtime.Gosched()
						mu.Lock()
						if k == "k"+strconv.Itoa(v.(int)) {
							cnt++
						}
						mu.Unlock()
					})
					if cnt != n {
						return fmt.Sprintf("object ForEachAsync made %d matching calls, want %d", cnt, n)
					}
					g := func(k string, v any) any { runtime.Gosched(); return k + strconv.Itoa(v.(int)) }
					if !o.MapAsync(g).Equals(o.Map(g)) {
						return "object MapAsync differs from Map"
					}
				}
				return ""
			})
		}
	}
	runtime.GOMAXPROCS(4)
	for _, n := range []int{65, 130} {
		n := n
		c.check(fmt.Sprintf("large-slow-callback:%d", n), true, func() string {
			// every callback has returned when the call returns, also for many fields / elements and one slow callback
			o, l := NewObject(), NewList()
			for i := 0; i < n; i++ {
				o.Set("k"+strconv.Itoa(i), i)
				l.Add(i)
			}
			var mu sync.Mutex
			done := 0
			o.ForEachAsync(func(k string, v any) {
				if k == "k"+strconv.Itoa(n/2) {
					time.Sleep(40 * time.Millisecond)
				}
				mu.Lock()
				done++
				mu.Unlock()
			})
			mu.Lock()
			d := done
			mu.Unlock()
			if d != n {
				return fmt.Sprintf("object ForEachAsync returned when %d of %d callbacks had returned", d, n)
			}
			done = 0
			l.ForEachAsync(func(i int, v any) {
				if i == n/2 {
					time.Sleep(40 * time.Millisecond)
				}
				mu.Lock()
				done++
				mu.Unlock()
			})
			mu.Lock()
			d = done
			mu.Unlock()
			if d != n {
				return fmt.Sprintf("list ForEachAsync returned when %d of %d callbacks had returned", d, n)
			}
			res := o.MapAsync(func(k string, v any) any {
				if k == "k1" {
					time.Sleep(20 * time.Millisecond)
				}
				return v.(int) + 1
			})
			if res.Count() != n || res.GetInt("k1") != 2 || res.GetInt("k"+strconv.Itoa(n-1)) != n {
				return "object MapAsync with a slow callback gives a wrong result"
			}
			return ""
		})
	}
	c.check("async-identity", true, func() string {
		// the callbacks receive what Get / the sequential variants hand out: the stored containers themselves
		// (by reference, derived types included), not copies
		in, dl, do := NewList(1), newDList(2), newDObject("z", 3)
		l := NewList(in, NewObject("a", 1), dl, do, "s", 7)
		o := NewObject("l", in, "o", NewObject("b", 2), "dl", dl, "do", do, "n", nil, "i", 1)
		var mu sync.Mutex
		bad := ""
		l.ForEachAsync(func(i int, v any) {
			mu.Lock()
			defer mu.Unlock()
			if !same(v, l.Get(i)) {
				bad = fmt.Sprintf("list ForEachAsync passes %T for element %d, Get returns %T (not the identical value)", v, i, l.Get(i))
			}
		})
		o.ForEachAsync(func(k string, v any) {
			mu.Lock()
			defer mu.Unlock()
			if !same(v, o.Get(k)) {
				bad = fmt.Sprintf("object ForEachAsync passes %T for key %q, Get returns %T (not the identical value)", v, k, o.Get(k))
			}
		})
		if bad != "" {
			return bad
		}
		id := func(_ int, v any) any { return v }
		ma, ms := l.MapAsync(id), l.Map(id)
		for i := 0; i < l.Count(); i++ {
			if !same(ma.Get(i), ms.Get(i)) || !same(ma.Get(i), l.Get(i)) {
				return fmt.Sprintf("list MapAsync(identity) element %d is not the identical stored value", i)
			}
		}
		oid := func(_ string, v any) any { return v }
		oa, os := o.MapAsync(oid), o.Map(oid)
		for _, k := range []string{"l", "o", "dl", "do", "n", "i"} {
			if !same(oa.Get(k), os.Get(k)) || !same(oa.Get(k), o.Get(k)) {
				return fmt.Sprintf("object MapAsync(identity) field %q is not the identical stored value", k)
			}
		}
		// a callback that mutates the container it is given must reach the stored one
		o.ForEachAsync(func(k string, v any) {
			if x, ok := v.(List); ok {
				mu.Lock()
				x.Add("seen")
				mu.Unlock()
			}
		})
		if in.Count() != 2 || dl.Count() != 2 {
			return "a mutation made by an object ForEachAsync callback did not reach the stored list"
		}
		return ""
	})
	c.check("nested-async", true, func() string {
		// an async call inside an async callback must still terminate (no bounded worker pool)
		outer := NewList()
		for i := 0; i < 8*runtime.GOMAXPROCS(0); i++ {
			outer.Add(NewList(1, 2, 3))
		}
		done := make(chan int, 1)
		go func() {
			var mu sync.Mutex
			n := 0
			outer.ForEachAsync(func(_ int, v any) {
				v.(List).ForEachAsync(func(int, any) { mu.Lock(); n++; mu.Unlock() })
				_ = v.(List).MapAsync(func(i int, x any) any { return x })
			})
			done <- n
		}()
		select {
		case n := <-done:
			if n != 3*outer.Count() {
				return fmt.Sprintf("nested ForEachAsync made %d calls, want %d", n, 3*outer.Count())
			}
		case <-time.After(8 * time.Second):
			return "nested ForEachAsync did not return within 8s"
		}
		return ""
	})
	// controlled schedules: every order in which the callbacks FINISH (all n! orders for n <= 4): the callback of the
	// element that is k-th in the order returns only after the (k-1)-th has returned; whatever the order, every
	// element is visited once and the call returns after the last callback
	var perms func(n int) [][]int
	perms = func(n int) [][]int {
		if n == 0 {
			return [][]int{{}}
		}
		var out [][]int
		for _, p := range perms(n - 1) {
			for pos := 0; pos <= len(p); pos++ {
				q := append(append(append([]int{}, p[:pos]...), n-1), p[pos:]...)
				out = append(out, q)
			}
		}
		return out
	}
	for n := 2; n <= 4; n++ {
		for _, order := range perms(n) {
			n, order := n, order
			c.check(fmt.Sprintf("finish-order:%v", order), true, func() string {
				for _, side := range []string{"list", "object"} {
					rank := make([]int, n) // rank[i]: position of element i in the finishing order
					for k, i := range order {
						rank[i] = k
					}
					finished := make([]chan struct{}, n)
					for i := range finished {
						finished[i] = make(chan struct{})
					}
					var mu sync.Mutex
					var got []int
					body := func(i int) {
						if rank[i] > 0 {
							<-finished[order[rank[i]-1]]
						}
						mu.Lock()
						got = append(got, i)
						mu.Unlock()
						close(finished[i])
					}
					ret := make(chan struct{})
					go func() {
						defer close(ret)
						if side == "list" {
							l := NewList()
							for i := 0; i < n; i++ {
								l.Add(i)
							}
							l.ForEachAsync(func(i int, v any) { body(v.(int)) })
						} else {
							o := NewObject()
							for i := 0; i < n; i++ {
								o.Set("k"+strconv.Itoa(i), i)
							}
							o.ForEachAsync(func(k string, v any) { body(v.(int)) })
						}
					}()
					select {
					case <-ret:
					case <-time.After(finishOrderPatience):
						finishOrderPatience = time.Second // a loaded machine is given 10 s once; later cases of a blocked implementation cost 1 s each
						return fmt.Sprintf("%s ForEachAsync does not complete under the schedule in which the callbacks finish in the order %v (a callback was not started while another was delayed)", side, order)
					}
					mu.Lock()
					g := append([]int{}, got...)
					mu.Unlock()
					if !reflect.DeepEqual(g, order) {
						return fmt.Sprintf("%s ForEachAsync: callbacks finished in the order %v under the schedule %v", side, g, order)
					}
				}
				return ""
			})
		}
	}
	c.check("nested-mapasync", true, func() string {
		// a pure mapping function may itself use the async variants (rows of a table, an object of lists)
		rows := NewList(NewList(1, 2), NewList(3), NewList())
		obj := NewObject("a", NewList(1, 2), "b", NewList(3))
		inner := func(_ int, v any) any { return v.(int) * 10 }
		type res struct{ l, o string }
		done := make(chan res, 1)
		go func() {
			rl := rows.MapAsync(func(_ int, v any) any { return v.(List).MapAsync(inner) })
			ro := obj.MapAsync(func(_ string, v any) any { return v.(List).MapAsync(inner) })
			var n int
			var mu sync.Mutex
			obj.ForEachAsync(func(_ string, v any) {
				_ = v.(List).MapAsync(inner)
				mu.Lock()
				n++
				mu.Unlock()
			})
			done <- res{rl.String(), ro.String()}
		}()
		select {
		case r := <-done:
			wl := rows.Map(func(_ int, v any) any { return v.(List).Map(inner) }).String()
			wo := obj.Map(func(_ string, v any) any { return v.(List).Map(inner) })
			got, _ := ParseObject(r.o)
			if r.l != wl || got == nil || !got.Equals(wo) {
				return fmt.Sprintf("nested MapAsync gives %s / %s, the sequential variants give %s / %s", r.l, r.o, wl, wo.String())
			}
		case <-time.After(8 * time.Second):
			return "MapAsync whose mapping function uses MapAsync did not return within 8s"
		}
		return ""
	})
	runtime.GOMAXPROCS(8)
	c.check("readers", true, func() string {
		for r := 0; r < reps; r++ {
			l := NewList(1, 2, 3, 4).Pop() // spare capacity
			o := NewObject("a", l)
			want := l.String() + o.String()
			var wg sync.WaitGroup
			bad := make(chan string, 16)
			for g := 0; g < 8; g++ {
				wg.Add(1)
				go func(g int) {
					defer wg.Done()
					for k := 0; k < 20; k++ {
						cc := l.Concat(NewList(g))
						if cc.Count() != 4 || cc.GetInt(3) != g || l.Count() != 3 {
							select {
							case bad <- "concurrent Concat results interfere":
							default:
							}
						}
						if l.String()+o.String() != want || !l.Clone().Equals(l) || l.SubList(0, 2).Count() != 2 || o.GetTF(".a#1") != 2 {
							select {
							case bad <- "concurrent read-only calls disagree with the sequential result":
							default:
							}
						}
					}
				}(g)
			}
			wg.Wait()
			select {
			case m := <-bad:
				return m
			default:
			}
		}
		return ""
	})
}

func init() {
	oracles["C10"] = c10Oracle
	oracles["C11"] = c11Oracle
	oracles["C14"] = c14Oracle
	oracles["C15"] = c15Oracle
	oracles["C17"] = c17Oracle
	oracles["C18"] = c18Oracle
	oracles["C19"] = c19Oracle
}
