package anytype

// History-built containers for all bounded oracles.
//
// Many defects show only on a container that reached its state through a particular history
// (grown beyond a capacity step and drained again, an element inserted exactly at the end, a key set,
// unset and set again, a sub list taken before a shrink ...). This file builds a corpus of lists and
// objects through seeded random programs over the public mutators - including macro steps (grow by
// many, drain to empty, shrink to a quarter) that make deep histories reachable with short programs -
// while maintaining a reference model (the expected Get-values, containers by reference). Derived
// results taken on the way (SubList, Concat, Clone, Keys, Pluck ...) are kept as siblings together
// with the content they had when they were taken. histChecks then applies, per property, a generic
// restatement of that property to every history-built container.

import (
	"bytes"
	"encoding/json"
	"fmt"
	"math"
	"reflect"
	"sort"
	"strconv"
	"strings"
	"sync"
)

type histSibling struct {
	what string
	val  any   // List, Object, []any or map[string]any taken at some point
	want []any // expected sequence (lists / slices) ...
	wmap map[string]any
}

type histList struct {
	id       string
	l        List
	model    []any
	siblings []histSibling
	trace    []string
	fluent   string // first fluent call that did not return the receiver ("" if none)
}

type histObject struct {
	id       string
	o        Object
	model    map[string]any
	siblings []histSibling
	trace    []string
	fluent   string
}

// histNumericOnly restricts the generated values to ints and floats (for the numeric aggregates and Sort)
var histNumericOnly bool

func histValue(r interface{ Intn(int) int }, shared []any) any {
	if histNumericOnly {
		if r.Intn(3) == 0 {
			return []float64{0.5, -2.5, 3, 1e16, 1}[r.Intn(5)]
		}
		return []int{0, 1, -1, 5, -7, 1 << 53, 12}[r.Intn(7)]
	}
	switch r.Intn(14) {
	case 0:
		return r.Intn(5) - 2
	case 1:
		return []int{math.MaxInt, math.MinInt, 1 << 53, 7}[r.Intn(4)]
	case 2:
		return []float64{0.5, -2.5, 3, math.Copysign(0, -1), 1e21}[r.Intn(5)]
	case 3:
		return []string{"", "s", "é", "a\"b", "1e5"}[r.Intn(5)]
	case 4:
		return r.Intn(2) == 0
	case 5:
		return nil
	case 6:
		return NewList(1, "x")
	case 7:
		return NewObject("k", 1)
	case 8:
		return NewList()
	case 9:
		return NewObject()
	case 10, 11:
		return shared[r.Intn(len(shared))]
	case 12:
		// containers that are themselves derived results (SubList / Concat / Clone / Filter / Keys)
		switch r.Intn(5) {
		case 0:
			return NewList(1, 2, "t").SubList(0, 2)
		case 1:
			return NewList(1).Concat(NewList("c"))
		case 2:
			return NewObject("a", NewList(1)).Clone()
		case 3:
			return NewList(1, "x", 2).Filter(func(v any) bool { _, ok := v.(int); return ok })
		}
		return NewObject("k1", 1).Keys()
	}
	return r.Intn(100)
}

func buildHistList(seed int64, mk func(vals ...any) List) *histList {
	r := newRng(seed)
	h := &histList{id: fmt.Sprintf("H%d", seed)}
	shared := []any{NewList(9), NewObject("s", 1), 42, "sh"}
	n0 := r.Intn(4)
	init := make([]any, n0)
	for i := range init {
		init[i] = histValue(r, shared)
	}
	h.l = mk(init...)
	h.model = append([]any{}, init...)
	fl := func(op string, res List) {
		if res != h.l && h.fluent == "" {
			h.fluent = fmt.Sprintf("%s returned %T instead of the receiver", op, res)
		}
	}
	sib := func(what string, v any) {
		s := histSibling{what: what, val: v}
		switch x := v.(type) {
		case List:
			s.want = snapL(x)
		case []any:
			s.want = append([]any{}, x...)
		}
		h.siblings = append(h.siblings, s)
	}
	steps := 3 + r.Intn(8)
	for s := 0; s < steps; s++ {
		n := len(h.model)
		op := r.Intn(22)
		switch {
		case op == 0:
			v := histValue(r, shared)
			h.trace = append(h.trace, "Add")
			fl("Add", h.l.Add(v))
			h.model = append(h.model, v)
		case op == 1:
			a, b, c := histValue(r, shared), histValue(r, shared), histValue(r, shared)
			h.trace = append(h.trace, "Add3")
			fl("Add", h.l.Add(a, b, c))
			h.model = append(h.model, a, b, c)
		case op == 2:
			v := histValue(r, shared)
			i := r.Intn(n + 1)
			h.trace = append(h.trace, fmt.Sprintf("Insert(%d)", i))
			fl("Insert", h.l.Insert(i, v))
			h.model = append(h.model[:i], append([]any{v}, h.model[i:]...)...)
		case op == 3:
			v := histValue(r, shared)
			h.trace = append(h.trace, "InsertEnd")
			fl("Insert", h.l.Insert(n, v))
			h.model = append(h.model, v)
		case op == 4 && n > 0:
			v := histValue(r, shared)
			i := r.Intn(n)
			h.trace = append(h.trace, fmt.Sprintf("Replace(%d)", i))
			fl("Replace", h.l.Replace(i, v))
			h.model[i] = v
		case op == 5 && n > 0:
			i := r.Intn(n)
			h.trace = append(h.trace, fmt.Sprintf("Delete(%d)", i))
			fl("Delete", h.l.Delete(i))
			h.model = append(h.model[:i:i], h.model[i+1:]...)
		case op == 6 && n > 2:
			h.trace = append(h.trace, "Delete(0,2)")
			fl("Delete", h.l.Delete(2, 0))
			h.model = append([]any{h.model[1]}, h.model[3:]...)
		case op == 7 && n > 0:
			h.trace = append(h.trace, "Pop")
			fl("Pop", h.l.Pop())
			h.model = h.model[: n-1 : n-1]
		case op == 8:
			h.trace = append(h.trace, "Clear")
			fl("Clear", h.l.Clear())
			h.model = nil
		case op == 9:
			h.trace = append(h.trace, "Reverse")
			fl("Reverse", h.l.Reverse())
			for i, j := 0, n-1; i < j; i, j = i+1, j-1 {
				h.model[i], h.model[j] = h.model[j], h.model[i]
			}
		case op == 10: // grow past one or two capacity steps, one element at a time
			k := 9 + r.Intn(9)
			h.trace = append(h.trace, fmt.Sprintf("Grow(%d)", k))
			for i := 0; i < k; i++ {
				v := histValue(r, shared)
				fl("Add", h.l.Add(v))
				h.model = append(h.model, v)
			}
		case op == 11 && n > 0: // drain to empty from the end
			h.trace = append(h.trace, "Drain")
			for len(h.model) > 0 {
				fl("Pop", h.l.Pop())
				h.model = h.model[:len(h.model)-1]
			}
			h.model = nil
		case op == 12 && n > 0: // drain from the front
			h.trace = append(h.trace, "DrainFront")
			for len(h.model) > 0 {
				fl("Delete", h.l.Delete(0))
				h.model = append([]any{}, h.model[1:]...)
			}
			h.model = nil
		case op == 13 && n > 4: // shrink to a quarter
			h.trace = append(h.trace, "Shrink")
			for len(h.model) > n/4 {
				i := r.Intn(len(h.model))
				fl("Delete", h.l.Delete(i))
				h.model = append(h.model[:i:i], h.model[i+1:]...)
			}
		case op == 14 && n > 0:
			i := r.Intn(n)
			h.trace = append(h.trace, fmt.Sprintf("UnsetTF(#%d)", i))
			fl("UnsetTF", h.l.UnsetTF("#"+strconv.Itoa(i)))
			h.model = append(h.model[:i:i], h.model[i+1:]...)
		case op == 15:
			v := histValue(r, shared)
			i := r.Intn(n + 3)
			h.trace = append(h.trace, fmt.Sprintf("SetTF(#%d)", i))
			fl("SetTF", h.l.SetTF("#"+strconv.Itoa(i), v))
			for len(h.model) < i {
				h.model = append(h.model, nil)
			}
			if i < len(h.model) {
				h.model[i] = v
			} else {
				h.model = append(h.model, v)
			}
		case op == 16:
			h.trace = append(h.trace, "SubList(0,0)")
			sib("SubList(0,0)", h.l.SubList(0, 0))
		case op == 17 && n > 1:
			h.trace = append(h.trace, "SubList(1,0)")
			sib("SubList(1,0)", h.l.SubList(1, 0))
		case op == 18:
			h.trace = append(h.trace, "Concat")
			sib("Concat(one)", h.l.Concat(NewList("c")))
			sib("Concat(empty)", h.l.Concat(NewList()))
		case op == 19:
			h.trace = append(h.trace, "Clone/Slice")
			sib("Slice", h.l.Slice())
			sib("Filter(all)", h.l.Filter(func(any) bool { return true }))
		case op == 20 && n > 0:
			// Sort on a homogeneous list only
			homog := true
			for _, v := range h.model {
				if reflect.TypeOf(v) != reflect.TypeOf(h.model[0]) {
					homog = false
				}
			}
			if _, isInt := h.model[0].(int); homog && isInt {
				h.trace = append(h.trace, "Sort")
				fl("Sort", h.l.Sort())
				sort.SliceStable(h.model, func(i, j int) bool { return h.model[i].(int) < h.model[j].(int) })
			}
		case op == 21:
			h.trace = append(h.trace, "ForEach")
			fl("ForEach", h.l.ForEach(func(int, any) {}))
		}
		if r.Intn(3) == 0 {
			// call the pure observers in the middle of the history (whatever they may remember must not go stale)
			h.trace = append(h.trace, "Observe")
			l := h.l
			for _, f := range []func(){func() { l.Sum() }, func() { l.Prod() }, func() { l.Avg() }, func() { l.Min() }, func() { l.Max() },
				func() { l.IntSum() }, func() { l.IntProd() }, func() { l.IntMin() }, func() { l.IntMax() }, func() { _ = l.String() }, func() { l.FormatString(2) },
				func() { l.Clone() }, func() { l.AllInts() }, func() { l.AllNumeric() }, func() { l.AllStrings() }, func() { l.Count() }, func() { l.Equals(l) },
				func() { l.Slice() }, func() { l.NativeSlice() }, func() { l.IntSlice() }, func() { l.Contains(1) }, func() { l.IndexOf("s") }, func() { l.TypeOfTF("#0") }} {
				catch(f)
			}
		}
	}
	h.id += ":" + strings.Join(h.trace, ",")
	if len(h.id) > 150 {
		h.id = h.id[:150]
	}
	return h
}

var histKeys = []string{"a", "b", "", "k.x", "#0", "é", "n"}

func buildHistObject(seed int64, mk func(vals ...any) Object) *histObject {
	r := newRng(seed)
	h := &histObject{id: fmt.Sprintf("HO%d", seed), model: map[string]any{}}
	shared := []any{NewList(9), NewObject("s", 1), 42, "sh"}
	h.o = mk()
	fl := func(op string, res Object) {
		if res != h.o && h.fluent == "" {
			h.fluent = fmt.Sprintf("%s returned %T instead of the receiver", op, res)
		}
	}
	sib := func(what string, v any) {
		s := histSibling{what: what, val: v}
		switch x := v.(type) {
		case Object:
			s.wmap = snapO(x)
		case map[string]any:
			s.wmap = map[string]any{}
			for k, e := range x {
				s.wmap[k] = e
			}
		case List:
			s.want = snapL(x)
		}
		h.siblings = append(h.siblings, s)
	}
	existing := func() (string, bool) {
		if len(h.model) == 0 {
			return "", false
		}
		ks := make([]string, 0, len(h.model))
		for k := range h.model {
			ks = append(ks, k)
		}
		sort.Strings(ks)
		return ks[r.Intn(len(ks))], true
	}
	steps := 3 + r.Intn(8)
	for s := 0; s < steps; s++ {
		op := r.Intn(16)
		switch {
		case op <= 1:
			k, v := histKeys[r.Intn(len(histKeys))], histValue(r, shared)
			h.trace = append(h.trace, "Set")
			fl("Set", h.o.Set(k, v))
			h.model[k] = v
		case op == 2:
			if k, ok := existing(); ok { // overwrite with a value of the same Go kind where possible
				v := histValue(r, shared)
				for t := 0; t < 20 && reflect.TypeOf(v) != reflect.TypeOf(h.model[k]); t++ {
					v = histValue(r, shared)
				}
				h.trace = append(h.trace, "SetSameKind")
				fl("Set", h.o.Set(k, v))
				h.model[k] = v
			}
		case op == 3:
			if k, ok := existing(); ok {
				h.trace = append(h.trace, "Unset")
				fl("Unset", h.o.Unset(k))
				delete(h.model, k)
			}
		case op == 4:
			if k, ok := existing(); ok { // set, unset, set again
				v := histValue(r, shared)
				h.trace = append(h.trace, "UnsetSet")
				fl("Unset", h.o.Unset(k))
				fl("Set", h.o.Set(k, v))
				h.model[k] = v
			}
		case op == 5:
			h.trace = append(h.trace, "Clear")
			fl("Clear", h.o.Clear())
			h.model = map[string]any{}
		case op == 6: // grow past 32 fields
			h.trace = append(h.trace, "Grow(33)")
			for i := 0; i < 33; i++ {
				k, v := "g"+strconv.Itoa(i), histValue(r, shared)
				fl("Set", h.o.Set(k, v))
				h.model[k] = v
			}
		case op == 7 && len(h.model) > 4: // shrink to a quarter
			h.trace = append(h.trace, "Shrink")
			for want := len(h.model) / 4; len(h.model) > want; {
				k, _ := existing()
				fl("Unset", h.o.Unset(k))
				delete(h.model, k)
			}
		case op == 8:
			k, v := "t"+strconv.Itoa(r.Intn(3)), histValue(r, shared)
			h.trace = append(h.trace, "SetTF")
			fl("SetTF", h.o.SetTF("."+k, v))
			h.model[k] = v
		case op == 9:
			if k, ok := existing(); ok && k != "" && !strings.ContainsAny(k, ".#") {
				h.trace = append(h.trace, "UnsetTF")
				fl("UnsetTF", h.o.UnsetTF("."+k))
				delete(h.model, k)
			}
		case op == 10:
			h.trace = append(h.trace, "Clone")
			sib("Clone", h.o.Clone())
		case op == 11:
			h.trace = append(h.trace, "Merge")
			sib("Merge(empty)", h.o.Merge(NewObject()))
			sib("empty.Merge", NewObject().Merge(h.o))
		case op == 12:
			h.trace = append(h.trace, "Dict")
			sib("Dict", h.o.Dict())
		case op == 13:
			if k, ok := existing(); ok {
				h.trace = append(h.trace, "Pluck")
				sib("Pluck", h.o.Pluck(k))
			}
		case op == 14:
			h.trace = append(h.trace, "Set2")
			k1, k2 := histKeys[r.Intn(len(histKeys))], histKeys[r.Intn(len(histKeys))]
			v1, v2 := histValue(r, shared), histValue(r, shared)
			fl("Set", h.o.Set(k1, v1, k2, v2))
			h.model[k1] = v1
			h.model[k2] = v2
		case op == 15:
			h.trace = append(h.trace, "ForEach")
			fl("ForEach", h.o.ForEach(func(string, any) {}))
		}
		if r.Intn(3) == 0 {
			h.trace = append(h.trace, "Observe")
			o := h.o
			for _, f := range []func(){func() { o.Keys() }, func() { o.Values() }, func() { _ = o.String() }, func() { o.FormatString(2) }, func() { o.Dict() }, func() { o.NativeDict() },
				func() { o.Count() }, func() { o.Equals(o) }, func() { o.Clone() }, func() { o.Contains(1) }, func() { o.KeyExists("a") }, func() { o.TypeOfTF(".a") }, func() { o.GetTF(".a") }} {
				catch(f)
			}
		}
	}
	h.id += ":" + strings.Join(h.trace, ",")
	if len(h.id) > 150 {
		h.id = h.id[:150]
	}
	return h
}

// what Get hands out for a value that was stored (ints / floats / strings as is, containers by reference)
func histGet(v any) any { return v }

func histSameSeq(got, want []any) bool {
	if len(got) != len(want) {
		return false
	}
	for i := range got {
		if !histSame(got[i], want[i]) {
			return false
		}
	}
	return true
}

func histSame(a, b any) bool {
	if fa, ok := a.(float64); ok {
		fb, ok := b.(float64)
		return ok && fa == fb && math.Signbit(fa) == math.Signbit(fb)
	}
	return same(a, b)
}

// what String() denotes agrees with what Get-navigation shows
func histStringAgrees(v any) string {
	s := serial(v)
	if !json.Valid([]byte(s)) {
		return fmt.Sprintf("String() %q is not valid JSON", s)
	}
	d := json.NewDecoder(strings.NewReader(s))
	d.UseNumber()
	var j any
	if err := d.Decode(&j); err != nil {
		return "decoder error: " + err.Error()
	}
	if m := jsonTreeEqual(v, j); m != "" {
		return "String() " + s + ": " + m
	}
	if o, ok := v.(Object); ok {
		if mm, ok := j.(map[string]any); !ok || len(mm) != o.Count() || strings.Count(s, "\":") < o.Count() {
			return fmt.Sprintf("String() %q does not have one member per field", s)
		}
	}
	return ""
}

func histSiblingsOK(sibs []histSibling) string {
	for _, s := range sibs {
		switch s.val.(type) {
		case List, Object:
			if m := histStringAgrees(s.val); m != "" {
				return fmt.Sprintf("a %s taken earlier: %s", s.what, m)
			}
		}
	}
	for _, s := range sibs {
		switch x := s.val.(type) {
		case List:
			if !histSameSeq(snapL(x), s.want) {
				return fmt.Sprintf("a %s taken earlier changed when its source was mutated later: %s, was %s", s.what, show(snapL(x)), show(s.want))
			}
		case []any:
			if !histSameSeq(x, s.want) {
				return fmt.Sprintf("a %s taken earlier changed when its source was mutated later", s.what)
			}
		case Object:
			if !sameMap(snapO(x), s.wmap) {
				return fmt.Sprintf("a %s taken earlier changed when its source was mutated later: %s, was %s", s.what, showM(snapO(x)), showM(s.wmap))
			}
		case map[string]any:
			if !sameMap(x, s.wmap) {
				return fmt.Sprintf("a %s taken earlier changed when its source was mutated later", s.what)
			}
		}
	}
	return ""
}

func histKindOf(v any) Type {
	switch v.(type) {
	case nil:
		return TypeNil
	case Object:
		return TypeObject
	case List:
		return TypeList
	case string:
		return TypeString
	case bool:
		return TypeBool
	case int:
		return TypeInt
	case float64:
		return TypeFloat
	}
	return TypeUndefined
}

// the model as a native tree (for comparisons with Native* and with encoding/json)
func histNative(v any) any {
	switch x := v.(type) {
	case List:
		return x.NativeSlice()
	case Object:
		return x.NativeDict()
	}
	return v
}

func histListChecks(prop string, h *histList) string {
	l, model := h.l, h.model
	if h.fluent != "" && (prop == "C19" || prop == "C05") {
		return h.fluent
	}
	basic := func() string {
		if l.Count() != len(model) || l.Empty() != (len(model) == 0) {
			return fmt.Sprintf("Count = %d, the model has %d elements", l.Count(), len(model))
		}
		if !histSameSeq(snapL(l), model) {
			return fmt.Sprintf("content %s, the model says %s", show(snapL(l)), show(model))
		}
		for i, v := range model {
			if l.TypeOf(i) != histKindOf(v) {
				return fmt.Sprintf("TypeOf(%d) = %d, the model says %d", i, l.TypeOf(i), histKindOf(v))
			}
		}
		return histSiblingsOK(h.siblings)
	}
	if m := basic(); m != "" && prop != "C12" {
		return m
	}
	switch prop {
	case "C05", "C09", "C12":
		for i, v := range model {
			if c, ok := v.(List); ok && (!l.Contains(c) || !same(l.Get(l.IndexOf(c)), c)) {
				return fmt.Sprintf("Contains / IndexOf do not find the stored list at %d", i)
			}
		}
		if catch(func() { l.Get(len(model)) }) == false || catch(func() { l.Get(-1) }) == false {
			return "Get outside 0..n-1 does not panic"
		}
	case "C07":
		fresh := NewList(model...)
		if !l.Equals(fresh) || !fresh.Equals(l) || !l.Equals(l) {
			return "a list reached through a history is not Equal to a freshly built list with the same elements"
		}
		if cl := l.Clone(); !l.Equals(cl) || !cl.Equals(l) {
			return "a list reached through a history is not Equal to its clone"
		}
		if p, err := ParseList(l.String()); err == nil && len(model) == 0 && (!l.Equals(p) || !p.Equals(l)) {
			return "an emptied list is not Equal to a parsed empty list"
		}
	case "C08":
		cl := l.Clone()
		if !l.Equals(cl) {
			return "clone does not Equal the original"
		}
		ro, rc := map[any]bool{}, map[any]bool{}
		reach(l, ro)
		reach(cl, rc)
		for k := range rc {
			if ro[k] {
				return "clone shares a container with the original"
			}
		}
		l.Add("orig-1")
		cl.Add("clone-1")
		l.Add("orig-2")
		cl.Add("clone-2")
		n := len(model)
		if l.Count() != n+2 || cl.Count() != n+2 || l.Get(n) != "orig-1" || l.Get(n+1) != "orig-2" || cl.Get(n) != "clone-1" || cl.Get(n+1) != "clone-2" {
			return fmt.Sprintf("after adding to both sides the original ends in %v,%v and the clone in %v,%v", l.Get(n), l.Get(n+1), cl.Get(n), cl.Get(n+1))
		}
	case "C13":
		nat := l.NativeSlice()
		if len(nat) != len(model) {
			return "NativeSlice has a different length"
		}
		for i, v := range model {
			if !reflect.DeepEqual(nat[i], histNative(v)) {
				return fmt.Sprintf("NativeSlice()[%d] = %#v, want %#v", i, nat[i], histNative(v))
			}
			if !histSame(l.Slice()[i], v) {
				return fmt.Sprintf("Slice()[%d] is not what Get returns", i)
			}
		}
		if hasContainer(nat) {
			return "NativeSlice contains a container"
		}
	case "C14":
		ref := func(t Type) int {
			k := 0
			for _, v := range model {
				if histKindOf(v) == t {
					k++
				}
			}
			return k
		}
		n := len(model)
		if l.AllInts() != (ref(TypeInt) == n) || l.AllStrings() != (ref(TypeString) == n) || l.AllFloats() != (ref(TypeFloat) == n) || l.AllBools() != (ref(TypeBool) == n) || l.AllObjects() != (ref(TypeObject) == n) || l.AllLists() != (ref(TypeList) == n) || l.AllNumeric() != (ref(TypeInt)+ref(TypeFloat) == n) {
			return "an All* predicate disagrees with the kinds of the elements"
		}
		if len(l.IntSlice()) != ref(TypeInt) || len(l.StringSlice()) != ref(TypeString) || len(l.FloatSlice()) != ref(TypeFloat) || len(l.BoolSlice()) != ref(TypeBool) || len(l.ObjectSlice()) != ref(TypeObject) || len(l.ListSlice()) != ref(TypeList) {
			return "a typed slice has the wrong number of elements"
		}
		cnt := map[Type]int{}
		l.ForEachInt(func(int) { cnt[TypeInt]++ })
		l.ForEachString(func(string) { cnt[TypeString]++ })
		l.ForEachObject(func(Object) { cnt[TypeObject]++ })
		l.ForEachList(func(List) { cnt[TypeList]++ })
		l.ForEachFloat(func(float64) { cnt[TypeFloat]++ })
		l.ForEachBool(func(bool) { cnt[TypeBool]++ })
		for _, t := range []Type{TypeInt, TypeString, TypeObject, TypeList, TypeFloat, TypeBool} {
			if cnt[t] != ref(t) {
				return fmt.Sprintf("typed ForEach of kind %d makes %d calls, there are %d such elements", t, cnt[t], ref(t))
			}
		}
		var vals []any
		l.ForEachValue(func(v any) { vals = append(vals, v) })
		if !histSameSeq(vals, model) {
			return "ForEachValue does not visit every element once in order"
		}
	case "C18":
		sum, prod := 0.0, 1.0
		isum, iprod, imin, imax, nint := 0, 1, math.MaxInt, math.MinInt, 0
		numeric := true
		for _, v := range model {
			switch x := v.(type) {
			case int:
				sum += float64(x)
				prod *= float64(x)
				isum += x
				iprod *= x
				nint++
				if x < imin {
					imin = x
				}
				if x > imax {
					imax = x
				}
			case float64:
				sum += x
				prod *= x
			default:
				numeric = false
			}
		}
		if nint == 0 {
			imin, imax = 0, 0
		}
		if l.IntSum() != isum || l.IntProd() != iprod || l.IntMin() != imin || l.IntMax() != imax {
			return fmt.Sprintf("IntSum/IntProd/IntMin/IntMax = %d/%d/%d/%d, reference folds give %d/%d/%d/%d", l.IntSum(), l.IntProd(), l.IntMin(), l.IntMax(), isum, iprod, imin, imax)
		}
		if numeric && len(model) > 0 {
			if s := l.Sum(); s != sum && !(math.IsNaN(s) && math.IsNaN(sum)) {
				return fmt.Sprintf("Sum = %v, reference fold gives %v", s, sum)
			}
			if p := l.Prod(); p != prod && !(math.IsNaN(p) && math.IsNaN(prod)) {
				return fmt.Sprintf("Prod = %v, reference fold gives %v", p, prod)
			}
			// the aggregates were just computed: change the list in every way that keeps it numeric and ask again
			fold := func(m []any) (float64, float64, int) {
				s, p, is := 0.0, 1.0, 0
				for _, v := range m {
					switch x := v.(type) {
					case int:
						s += float64(x)
						p *= float64(x)
						is += x
					case float64:
						s += x
						p *= x
					}
				}
				return s, p, is
			}
			m := append([]any{}, model...)
			steps := []struct {
				name string
				f    func()
			}{
				{"Insert(mid)", func() { i := len(m) / 2; l.Insert(i, 7); m = append(m[:i:i], append([]any{7}, m[i:]...)...) }},
				{"Insert(0)", func() { l.Insert(0, 0.25); m = append([]any{0.25}, m...) }},
				{"Reverse", func() {
					l.Reverse()
					for i, j := 0, len(m)-1; i < j; i, j = i+1, j-1 {
						m[i], m[j] = m[j], m[i]
					}
				}},
				{"SetTF", func() { l.SetTF("#0", 3); m[0] = 3 }},
				{"Pop", func() { l.Pop(); m = m[:len(m)-1] }},
				{"UnsetTF", func() { l.UnsetTF("#0"); m = m[1:] }},
			}
			for _, st := range steps {
				st.f()
				ws, wp, wi := fold(m)
				if gs, gp, gi, ga := l.Sum(), l.Prod(), l.IntSum(), l.Avg(); gs != ws || gp != wp || gi != wi || (len(m) > 0 && ga != ws/float64(len(m))) {
					return fmt.Sprintf("after %s (aggregates computed before): Sum/Prod/IntSum/Avg = %v/%v/%v/%v, reference folds give %v/%v/%v/%v", st.name, gs, gp, gi, ga, ws, wp, wi, ws/float64(len(m)))
				}
			}
		}
	case "C17":
		homog := len(model) > 0
		for _, v := range model {
			if _, ok := v.(int); !ok {
				homog = false
			}
		}
		if homog {
			want := append([]any{}, model...)
			sort.SliceStable(want, func(i, j int) bool { return want[i].(int) < want[j].(int) })
			if r := l.Sort(); r != l || !histSameSeq(snapL(l), want) {
				return fmt.Sprintf("Sort of a list reached through a history gives %s, want %s", show(snapL(l)), show(want))
			}
		}
		before := snapL(l)
		l.Reverse().Reverse()
		if !histSameSeq(snapL(l), before) {
			return "Reverse twice is not the identity"
		}
	case "C01", "C02", "C16":
		s := l.String()
		if !json.Valid([]byte(s)) {
			return fmt.Sprintf("String() %q is not valid JSON", s)
		}
		d := json.NewDecoder(strings.NewReader(s))
		d.UseNumber()
		var j any
		if err := d.Decode(&j); err != nil {
			return "decoder error: " + err.Error()
		}
		if m := jsonTreeEqual(l, j); m != "" {
			return m
		}
		if prop == "C01" {
			p, err := ParseList(s)
			if err != nil || !l.Equals(p) || !kindsEqual(l, p) {
				return fmt.Sprintf("round trip of %q fails", s)
			}
		}
		if prop == "C16" {
			var buf bytes.Buffer
			json.Indent(&buf, []byte(s), "", "  ")
			if got := l.FormatString(2); got != buf.String() {
				return fmt.Sprintf("FormatString(2) = %q, json.Indent of String() gives %q", got, buf.String())
			}
		}
	case "C10", "C11":
		for i, v := range model {
			p := "#" + strconv.Itoa(i)
			if !histSame(l.GetTF(p), v) || l.TypeOfTF(p) != histKindOf(v) {
				return fmt.Sprintf("GetTF / TypeOfTF(%s) disagree with Get / TypeOf", p)
			}
		}
		if l.TypeOfTF("#"+strconv.Itoa(len(model))) != TypeUndefined || !catch(func() { l.GetTF("#" + strconv.Itoa(len(model))) }) {
			return "a path one past the end resolves"
		}
		if prop == "C11" {
			n := len(model)
			l.SetTF("#"+strconv.Itoa(n+1), "w")
			if l.Count() != n+2 || l.Get(n) != nil || l.Get(n+1) != "w" {
				return "SetTF past the end does not pad with nil and store the value"
			}
			l.UnsetTF("#" + strconv.Itoa(n))
			if l.Count() != n+1 || l.Get(n) != "w" || !histSameSeq(snapL(l)[:n], model) {
				return "UnsetTF does not remove exactly the addressed element"
			}
		}
	case "C15":
		var mu sync.Mutex
		seen := map[int]int{}
		bad := false
		l.ForEachAsync(func(i int, v any) {
			mu.Lock()
			defer mu.Unlock()
			seen[i]++
			if i < 0 || i >= len(model) || !histSame(v, model[i]) {
				bad = true
			}
		})
		if bad || len(seen) != len(model) {
			return "ForEachAsync does not call the function once per element with the matching pair"
		}
		id := func(_ int, v any) any { return v }
		if !histSameSeq(snapL(l.MapAsync(id)), snapL(l.Map(id))) {
			return "MapAsync(identity) differs from Map(identity)"
		}
	}
	return ""
}

func histObjectChecks(prop string, h *histObject) string {
	o, model := h.o, h.model
	if h.fluent != "" && (prop == "C19" || prop == "C06") {
		return h.fluent
	}
	if o.Count() != len(model) || o.Empty() != (len(model) == 0) {
		return fmt.Sprintf("Count = %d, the model has %d fields", o.Count(), len(model))
	}
	for k, v := range model {
		if !o.KeyExists(k) || !histSame(o.Get(k), v) || o.TypeOf(k) != histKindOf(v) {
			return fmt.Sprintf("field %q: Get gives %v, the model says %v", k, show(o.Get(k)), show(v))
		}
	}
	if !sameMap(snapO(o), model) {
		return fmt.Sprintf("content %s, the model says %s", showM(snapO(o)), showM(model))
	}
	if m := histSiblingsOK(h.siblings); m != "" {
		return m
	}
	switch prop {
	case "C06", "C09":
		if o.Keys().Count() != len(model) || o.Values().Count() != len(model) || len(o.Dict()) != len(model) {
			return "Keys / Values / Dict have the wrong size"
		}
		for k, v := range model {
			if c, ok := v.(List); ok && (!o.Contains(c) || !o.Keys().Contains(k)) {
				return "Contains / Keys miss a stored field"
			}
			_ = v
		}
	case "C07":
		var pairs []any
		for k, v := range model {
			pairs = append(pairs, k, v)
		}
		fresh := NewObject(pairs...)
		if !o.Equals(fresh) || !fresh.Equals(o) || !o.Equals(o.Clone()) || !o.Clone().Equals(o) {
			return "an object reached through a history is not Equal to a freshly built object with the same fields"
		}
	case "C08":
		cl := o.Clone()
		if !o.Equals(cl) {
			return "clone does not Equal the original"
		}
		ro, rc := map[any]bool{}, map[any]bool{}
		reach(o, ro)
		reach(cl, rc)
		for k := range rc {
			if ro[k] {
				return "clone shares a container with the original"
			}
		}
		before := cl.NativeDict()
		for k, v := range model { // overwrite every field of the original with a value of the same kind
			switch x := v.(type) {
			case int:
				o.Set(k, x+1)
			case float64:
				o.Set(k, x+1.5)
			case string:
				o.Set(k, x+"!")
			case bool:
				o.Set(k, !x)
			}
		}
		o.Set("zz-new", 1)
		if !reflect.DeepEqual(before, cl.NativeDict()) {
			return "overwriting fields of the original changed the clone"
		}
	case "C13":
		nat := o.NativeDict()
		if len(nat) != len(model) || hasContainer(nat) {
			return "NativeDict has the wrong size or contains a container"
		}
		for k, v := range model {
			if !reflect.DeepEqual(nat[k], histNative(v)) || !histSame(o.Dict()[k], v) {
				return fmt.Sprintf("NativeDict / Dict disagree with Get for %q", k)
			}
		}
	case "C14":
		seen := map[string]int{}
		o.ForEach(func(k string, v any) {
			seen[k]++
			if !histSame(v, model[k]) {
				seen[k] += 100
			}
		})
		for k := range model {
			if seen[k] != 1 {
				return fmt.Sprintf("ForEach visits field %q %d times (or with a wrong value)", k, seen[k]%100)
			}
		}
		if len(seen) != len(model) {
			return "ForEach visits fields that do not exist"
		}
		cnt, ref := map[Type]int{}, map[Type]int{}
		for _, v := range model {
			ref[histKindOf(v)]++
		}
		o.ForEachInt(func(int) { cnt[TypeInt]++ })
		o.ForEachString(func(string) { cnt[TypeString]++ })
		o.ForEachObject(func(Object) { cnt[TypeObject]++ })
		o.ForEachList(func(List) { cnt[TypeList]++ })
		o.ForEachFloat(func(float64) { cnt[TypeFloat]++ })
		o.ForEachBool(func(bool) { cnt[TypeBool]++ })
		for _, t := range []Type{TypeInt, TypeString, TypeObject, TypeList, TypeFloat, TypeBool} {
			if cnt[t] != ref[t] {
				return fmt.Sprintf("typed ForEach of kind %d makes %d calls, there are %d such fields", t, cnt[t], ref[t])
			}
		}
		if !sameMap(snapO(o.MapValues(func(v any) any { return v })), model) {
			return "MapValues(identity) does not reproduce the fields"
		}
	case "C01", "C02", "C16":
		s := o.String()
		if !json.Valid([]byte(s)) {
			return fmt.Sprintf("String() %q is not valid JSON", s)
		}
		d := json.NewDecoder(strings.NewReader(s))
		d.UseNumber()
		var j any
		if err := d.Decode(&j); err != nil {
			return "decoder error: " + err.Error()
		}
		if m := jsonTreeEqual(o, j); m != "" {
			return m
		}
		if mm, ok := j.(map[string]any); !ok || len(mm) != len(model) || strings.Count(s, "\":") < len(model) {
			return fmt.Sprintf("String() %q does not have one member per field", s)
		}
		if prop == "C01" {
			p, err := ParseObject(s)
			if err != nil || !o.Equals(p) || !kindsEqual(o, p) {
				return fmt.Sprintf("round trip of %q fails", s)
			}
		}
		if prop == "C16" {
			if got := o.FormatString(2); !json.Valid([]byte(got)) || len(got) < len(s) {
				return "FormatString(2) is not a valid re-layout of String()"
			}
			var a, b any
			json.Unmarshal([]byte(o.FormatString(2)), &a)
			json.Unmarshal([]byte(o.String()), &b)
			if !reflect.DeepEqual(a, b) {
				return "FormatString(2) denotes other data than String() (stale or re-ordered text)"
			}
		}
	case "C10", "C11":
		for k, v := range model {
			if k == "" || strings.ContainsAny(k, ".#") {
				continue
			}
			if !histSame(o.GetTF("."+k), v) || o.TypeOfTF("."+k) != histKindOf(v) {
				return fmt.Sprintf("GetTF / TypeOfTF(.%s) disagree with Get / TypeOf", k)
			}
		}
		if prop == "C11" {
			o.SetTF(".w1", "w")
			if o.Get("w1") != "w" || o.Count() != len(model)+1 {
				return "SetTF of a new key does not add exactly that field"
			}
			o.UnsetTF(".w1")
			if o.KeyExists("w1") || o.Count() != len(model) {
				return "UnsetTF does not remove exactly the addressed field"
			}
		}
	case "C15":
		var mu sync.Mutex
		seen := map[string]int{}
		bad := false
		o.ForEachAsync(func(k string, v any) {
			mu.Lock()
			defer mu.Unlock()
			seen[k]++
			if !histSame(v, model[k]) {
				bad = true
			}
		})
		if bad || len(seen) != len(model) {
			return "object ForEachAsync does not call the function once per field with the matching pair"
		}
	}
	return ""
}

// Arguments belong to the caller: a slice spread into a variadic parameter, a native slice or map handed to a
// constructor, a container passed as operand - none of them is modified by the call, and using the same argument a
// second time gives the same result. (Delete sorting its index slice is the documented exception.)
func argsUnchangedChecks(c *oracleCtx) {
	mkVals := func() []any {
		return []any{1, int8(2), uint16(3), float32(1.5), "x", nil, true, []any{1, "n"}, map[string]any{"k": 1}, NewList(7), NewObject("o", 1)}
	}
	type entry struct {
		id string
		f  func(vals []any) any
	}
	entries := []entry{
		{"NewList(s...)", func(v []any) any { return NewList(v...) }},
		{"Add(s...)", func(v []any) any { return NewList("h").Add(v...) }},
		{"Add(s...) on spare capacity", func(v []any) any { l := NewList(1, 2, 3, 4, 5); l.Pop(); l.Pop(); return l.Add(v...) }},
		{"NewListFrom(s)", func(v []any) any { return NewListFrom(v) }},
		{"Insert(s[i])", func(v []any) any {
			l := NewList()
			for _, e := range v {
				l.Insert(0, e)
			}
			return l
		}},
		{"NewObject(pairs...)", func(v []any) any {
			var pairs []any
			for i, e := range v {
				pairs = append(pairs, "k"+strconv.Itoa(i), e)
			}
			keep := append([]any{}, pairs...)
			o := NewObject(pairs...)
			if !reflect.DeepEqual(histShallow(pairs), histShallow(keep)) {
				return "modified"
			}
			return o
		}},
		{"Set(pairs...)", func(v []any) any {
			var pairs []any
			for i, e := range v {
				pairs = append(pairs, "k"+strconv.Itoa(i), e)
			}
			keep := append([]any{}, pairs...)
			o := NewObject("k0", "old").Set(pairs...)
			if !reflect.DeepEqual(histShallow(pairs), histShallow(keep)) {
				return "modified"
			}
			return o
		}},
	}
	for _, e := range entries {
		e := e
		c.check("ARGS:"+e.id, true, func() string {
			vals := mkVals()
			keep := append([]any{}, vals...)
			r1 := e.f(vals)
			if r1 == "modified" || !reflect.DeepEqual(histShallow(vals), histShallow(keep)) {
				return e.id + " modified the slice it was given: " + fmt.Sprint(histShallow(vals))
			}
			r2 := e.f(vals)
			if !reflect.DeepEqual(nativeAny(r1), nativeAny(r2)) {
				return e.id + " gives a different result when the same arguments are used a second time"
			}
			// native sub-slices / maps become fresh containers each time: the two results share none
			if l1, ok := r1.(List); ok {
				l2 := r2.(List)
				for i := 0; i < l1.Count(); i++ {
					if _, nat := keep[i%len(keep)].([]any); nat && l1.TypeOf(i) == TypeList && same(l1.Get(i), l2.Get(i)) {
						return e.id + ": two calls with the same native slice share the container built from it"
					}
				}
			}
			return ""
		})
	}
	c.check("ARGS:native-map", true, func() string {
		m := map[string]any{"a": 1, "b": []any{1}, "c": map[string]any{"d": int8(1)}}
		keep := map[string]any{"a": 1, "b": []any{1}, "c": map[string]any{"d": int8(1)}}
		o := NewObjectFrom(m)
		if !reflect.DeepEqual(m, keep) {
			return "NewObjectFrom modified the map it was given"
		}
		m["a"] = 2
		m["b"].([]any)[0] = 9
		if o.GetInt("a") != 1 || o.GetList("b").GetInt(0) != 1 {
			return "an object built from a native map changes when the map is modified afterwards"
		}
		ks := []string{"name", "breed", "age"}
		keepK := append([]string{}, ks...)
		src := NewObject("name", 1, "breed", 2, "age", 3, "x", 4)
		p1 := src.Pluck(ks...)
		src.Clone().Unset(ks...)
		if !reflect.DeepEqual(ks, keepK) {
			return "Pluck / Unset modified the key slice they were given"
		}
		if p2 := src.Pluck(ks[:2]...); p2.Count() != 2 || !p2.KeyExists("name") || !p2.KeyExists("breed") || p1.Count() != 3 {
			return "Pluck with a reused key slice selects other fields"
		}
		return ""
	})
	c.check("ARGS:operands", true, func() string {
		in := NewList(1)
		a, b := NewList(in, 2), NewList(3)
		oa, ob := NewObject("l", in, "n", 1), NewObject("l", in, "m", 2)
		sa, sb, soa, sob := nativeAny(a), nativeAny(b), nativeAny(oa), nativeAny(ob)
		cc, mm := a.Concat(b), oa.Merge(ob)
		a.Concat(a)
		self := oa.Merge(oa)
		if !reflect.DeepEqual(sa, nativeAny(a)) || !reflect.DeepEqual(sb, nativeAny(b)) || !reflect.DeepEqual(soa, nativeAny(oa)) || !reflect.DeepEqual(sob, nativeAny(ob)) {
			return "Concat / Merge modified an operand"
		}
		// the argument's fields are held by reference (also when the receiver holds the very same container under that key)
		if !same(mm.Get("l"), in) || !same(self.Get("l"), in) || !same(cc.Get(0), in) {
			return "Merge / Concat do not hold the argument's nested container by reference"
		}
		if mm.GetInt("m") != 2 || mm.GetInt("n") != 1 || mm.Count() != 3 {
			return "Merge result has the wrong fields"
		}
		return ""
	})
}

// scalars and native values as they are, containers by identity (pointer): for slices given to an entry point
func histShallow(v []any) []any {
	out := make([]any, len(v))
	for i, e := range v {
		switch x := e.(type) {
		case List, Object:
			out[i] = fmt.Sprintf("%T@%p", x, x)
		default:
			out[i] = e
		}
	}
	return out
}

// histChecks runs the generic restatement of `prop` on the history-built corpus.
func histChecks(c *oracleCtx, prop string) {
	if prop == "C12" || prop == "C05" || prop == "C06" || prop == "C09" || prop == "C13" {
		argsUnchangedChecks(c)
	}
	nl, no := 160, 110
	if c.thorough {
		nl, no = 6000, 4000
	}
	base := int64(1000)
	if c.rng != nil && c.thorough {
		base = c.rng.Int63() % 1000000
	}
	for i := 0; i < nl; i++ {
		seed := base + int64(i)
		numeric := prop == "C18" && i%2 == 0
		mk := func(vals ...any) List { return NewList(vals...) }
		if prop == "C19" {
			mk = func(vals ...any) List { return newDList(vals...) }
		}
		var h *histList
		idSeed := fmt.Sprintf("HL:%d", seed)
		c.check(idSeed, true, func() string {
			histNumericOnly = numeric
			h = buildHistList(seed, mk)
			histNumericOnly = false
			if m := histListChecks(prop, h); m != "" {
				return m + " [history: " + strings.Join(h.trace, ",") + "]"
			}
			return ""
		})
	}
	for i := 0; i < no; i++ {
		seed := base + int64(i)
		mk := func(vals ...any) Object { return NewObject(vals...) }
		if prop == "C19" {
			mk = func(vals ...any) Object { return newDObject(vals...) }
		}
		c.check(fmt.Sprintf("HO:%d", seed), true, func() string {
			h := buildHistObject(seed, mk)
			if m := histObjectChecks(prop, h); m != "" {
				return m + " [history: " + strings.Join(h.trace, ",") + "]"
			}
			return ""
		})
	}
}

func init() {
	// wrap the property oracles once all of them are registered (TestVerifOracle applies oraclesLate first)
	for _, p := range []string{"C01", "C02", "C05", "C06", "C07", "C08", "C09", "C10", "C11", "C12", "C13", "C14", "C15", "C16", "C17", "C18", "C19"} {
		p := p
		oraclesLate = append(oraclesLate, func() {
			inner := oracles[p]
			oracles[p] = func(c *oracleCtx) {
				if inner != nil {
					inner(c)
				}
				b := c.bound
				histChecks(c, p)
				c.bound = b + " || history-built corpus: lists and objects reached through seeded random programs of 3-10 mutator steps incl. grow-by-many / drain / shrink macro steps, with derived siblings"
			}
		})
	}
}
