package anytype

// Bounded oracles for the serialiser / parser properties:
//   C01 round trip (B-RT), C02 independent decoder, C03 reference decoder on
//   foreign JSON (B-GRAM), C04 totality / prefixes / ill-formed UTF-8 (B-PFX),
//   C16 FormatString, C20 error lines.
// All labelled bounded; they stand in for the document-level composition and
// replay failed leaf obligations on the real code.

import (
	"bytes"
	"encoding/json"
	"fmt"
	"math"
	"os"
	"path/filepath"
	"reflect"
	"regexp"
	"strconv"
	"strings"
	"syscall"
	"time"
	"unicode/utf8"
)

var edgeInts = []int{0, 1, -1, 7, 1000000, -999999, math.MaxInt, math.MinInt}
var edgeFloats = []float64{0.5, 1.0, -0.0, 123456.0, 1e6, 999999.5, 1e-6, 1.5e-7, 5e-324, 1e300, -1e-300, 1.7976931348623157e308, 0.1, 1234567.0, 100.0, 3.0e21,
	float64(float32(0.1)), 1 + 1.0/8388608, 12345678848.0, 2e9, -3e-300, 5e-7, 1e21, 16777217.0, 9007199254740993.0}
var edgeStrings = []string{"", "a", "a\"b", "back\\slash", "/", "\n\t\r", "\x01", "\a\v", "\x7f", "  ", "�", "\U0001F600", "\U000E0001", "é", "[{,:}]", "null", "1.0", " "}
var edgeKeys = []string{"", "k", ".a", "#b", "a.b", "q\"t", "\x01", "�", "é", "\U0001F600", "50%", "a%sb", "%d", "100%!", "k\\", "\\\\", "e\x1b", "n\n",
	// white space inside keys is content (raw space, NBSP, NEL, ideographic space; keys that differ only in it)
	" ", "first name", "a b", "ab", "\u00a0", "x\u3000y", "\u0085", " lead", "trail "}

type leafSpec struct {
	id  string
	val any
}

func edgeLeaves() []leafSpec {
	var out []leafSpec
	out = append(out, leafSpec{"nil", nil}, leafSpec{"true", true}, leafSpec{"false", false})
	for i, v := range edgeInts {
		out = append(out, leafSpec{fmt.Sprintf("i%d", i), v})
	}
	for i, v := range edgeFloats {
		out = append(out, leafSpec{fmt.Sprintf("f%d", i), v})
	}
	for i, v := range edgeStrings {
		out = append(out, leafSpec{fmt.Sprintf("s%d", i), v})
	}
	return out
}

// buildTree turns a compact description into a container: "L(a,b)" list, "O(k=a,..)" object.
type treeSpec struct {
	id   string
	make func() any // List or Object
}

func treeSpecs(c *oracleCtx) []treeSpec {
	leaves := edgeLeaves()
	var out []treeSpec
	// depth 1: every leaf alone in a list and under every edge key in an object (bounded to key 0..)
	for _, lf := range leaves {
		lf := lf
		out = append(out, treeSpec{"L(" + lf.id + ")", func() any { return NewList(lf.val) }})
		out = append(out, treeSpec{"O(k=" + lf.id + ")", func() any { return NewObject("k", lf.val) }})
	}
	for i, k := range edgeKeys {
		k := k
		out = append(out, treeSpec{fmt.Sprintf("O(key%d=i3)", i), func() any { return NewObject(k, 7) }})
		out = append(out, treeSpec{fmt.Sprintf("O(key%d=L())", i), func() any { return NewObject(k, NewList()) }})
	}
	out = append(out, treeSpec{"L()", func() any { return NewList() }}, treeSpec{"O()", func() any { return NewObject() }})
	// special keys x special string values (a key ending in a backslash followed by structural characters inside a
	// string, percent signs in keys, control characters at the end of keys / values), flat and nested
	for i, k := range edgeKeys {
		for j, v := range []string{":}x", "]", "a\\", "\\\"", "%s", "x\x01", ",\"k\":1}"} {
			k, v := k, v
			out = append(out, treeSpec{fmt.Sprintf("O(key%d=sv%d)", i, j), func() any { return NewObject(k, v) }})
			out = append(out, treeSpec{fmt.Sprintf("L(O(key%d=sv%d),sv%d)", i, j, j), func() any { return NewList(NewObject(k, v, "z", v), v) }})
		}
	}
	// width 2 / depth 2 combinations over a reduced alphabet, exhaustive
	small := []leafSpec{leaves[0], leaves[1], {"i1", 1}, {"f1", 1.0}, {"f2", -0.0}, {"s2", "a\"b"}, {"s6", "\x01"}, {"s10", "�"}, {"f0", 0.5},
		{"sbs", "a\\"}, {"sbr", "]"}, {"sbc", "}"}, {"sq", "\\\""}}
	for _, a := range small {
		for _, b := range small {
			a, b := a, b
			out = append(out, treeSpec{"L(" + a.id + "," + b.id + ")", func() any { return NewList(a.val, b.val) }})
			out = append(out, treeSpec{"O(a=" + a.id + ",b=" + b.id + ")", func() any { return NewObject("a", a.val, "b", b.val) }})
			out = append(out, treeSpec{"L(L(" + a.id + "),O(x=" + b.id + "))", func() any { return NewList(NewList(a.val), NewObject("x", b.val)) }})
			out = append(out, treeSpec{"O(l=L(" + a.id + "," + b.id + "),o=O())", func() any { return NewObject("l", NewList(a.val, b.val), "o", NewObject()) }})
		}
	}
	if c.thorough {
		for n := 0; n < 30000; n++ {
			seed := c.rng.Int63()
			id := fmt.Sprintf("R(%d)", seed)
			out = append(out, treeSpec{id, func() any { return randTree(seed, leaves) }})
		}
	}
	return out
}

func randTree(seed int64, leaves []leafSpec) any {
	r := newRng(seed)
	var gen func(d int) any
	gen = func(d int) any {
		k := r.Intn(10)
		if d >= 3 || k < 6 {
			return leaves[r.Intn(len(leaves))].val
		}
		n := r.Intn(4)
		if k < 8 {
			l := NewList()
			for i := 0; i < n; i++ {
				l.Add(gen(d + 1))
			}
			return l
		}
		o := NewObject()
		for i := 0; i < n; i++ {
			o.Set(edgeKeys[r.Intn(len(edgeKeys))]+strconv.Itoa(r.Intn(2)), gen(d+1))
		}
		return o
	}
	if r.Intn(2) == 0 {
		l := NewList()
		for i, n := 0, r.Intn(4); i < n; i++ {
			l.Add(gen(1))
		}
		return l
	}
	o := NewObject()
	for i, n := 0, r.Intn(4); i < n; i++ {
		o.Set(edgeKeys[r.Intn(len(edgeKeys))], gen(1))
	}
	return o
}

func serial(t any) string {
	if l, ok := t.(List); ok {
		return l.String()
	}
	return t.(Object).String()
}

func reparse(t any, s string) (any, error) {
	if _, ok := t.(List); ok {
		return ParseList(s)
	}
	return ParseObject(s)
}

func equalsT(a, b any) bool {
	if l, ok := a.(List); ok {
		m, ok := b.(List)
		return ok && m != nil && l.Equals(m)
	}
	o, ok := b.(Object)
	return ok && o != nil && a.(Object).Equals(o)
}

// kindsEqual compares two trees including the kinds of all scalars.
func kindsEqual(a, b any) bool {
	switch x := a.(type) {
	case List:
		y, ok := b.(List)
		if !ok || x.Count() != y.Count() {
			return false
		}
		for i := 0; i < x.Count(); i++ {
			if x.TypeOf(i) != y.TypeOf(i) || !kindsEqual(x.Get(i), y.Get(i)) {
				return false
			}
		}
		return true
	case Object:
		y, ok := b.(Object)
		if !ok || x.Count() != y.Count() {
			return false
		}
		res := true
		x.ForEach(func(k string, v any) {
			if !y.KeyExists(k) || x.TypeOf(k) != y.TypeOf(k) || !kindsEqual(v, y.Get(k)) {
				res = false
			}
		})
		return res
	case float64:
		y, ok := b.(float64)
		return ok && (x == y) && math.Signbit(x) == math.Signbit(y)
	}
	return a == b
}

func c01Oracle(c *oracleCtx) {
	c.rule = "value trees over edge leaves (boundary ints, whole / negative-zero / subnormal / 1e6-edge floats, strings with controls, quotes, U+FFFD, astral) and edge keys; case = one tree; non-trivial = contains at least one leaf"
	c.bound = "B-RT: every single-leaf tree, every 2-leaf / depth-2 combination over a 9-leaf alphabet" + map[bool]string{true: ", plus 30000 seeded random trees of depth <= 3", false: ""}[c.thorough]
	for _, ts := range treeSpecs(c) {
		ts := ts
		c.check(ts.id, ts.id != "L()" && ts.id != "O()", func() string {
			t := ts.make()
			s := serial(t)
			p, err := reparse(t, s)
			if err != nil {
				return fmt.Sprintf("parse of %q failed: %v", s, err)
			}
			if !equalsT(t, p) {
				return fmt.Sprintf("re-parsed %q does not Equal the original", s)
			}
			if !kindsEqual(t, p) {
				return fmt.Sprintf("kinds changed through %q (re-serialised %q)", s, serial(p))
			}
			p2, err := reparse(p, serial(p))
			if err != nil || !equalsT(p, p2) {
				return "second round trip differs"
			}
			return ""
		})
	}
}

// jsonTreeEqual compares a container with what encoding/json decoded (UseNumber).
func jsonTreeEqual(v any, j any) string {
	switch x := v.(type) {
	case List:
		a, ok := j.([]any)
		if !ok || len(a) != x.Count() {
			return "array shape differs"
		}
		for i := range a {
			if m := jsonTreeEqual(x.Get(i), a[i]); m != "" {
				return m
			}
		}
	case Object:
		o, ok := j.(map[string]any)
		if !ok || len(o) != x.Count() {
			return "object shape differs"
		}
		msg := ""
		x.ForEach(func(k string, val any) {
			jv, ok := o[k]
			if !ok {
				msg = fmt.Sprintf("key %q missing in decoded JSON", k)
			} else if m := jsonTreeEqual(val, jv); m != "" {
				msg = m
			}
		})
		return msg
	case nil:
		if j != nil {
			return "null differs"
		}
	case bool:
		if b, ok := j.(bool); !ok || b != x {
			return "bool differs"
		}
	case string:
		if s, ok := j.(string); !ok || s != x {
			return fmt.Sprintf("string %q decoded as %#v", x, j)
		}
	case int:
		n, ok := j.(json.Number)
		if !ok {
			return "int decoded as non-number"
		}
		if i, err := strconv.ParseInt(n.String(), 10, 64); err != nil || int(i) != x {
			return fmt.Sprintf("int %d decoded as %s", x, n)
		}
	case float64:
		n, ok := j.(json.Number)
		if !ok {
			return "float decoded as non-number"
		}
		if f, err := strconv.ParseFloat(n.String(), 64); err != nil || f != x {
			return fmt.Sprintf("float %v decoded as %s", x, n)
		}
	}
	return ""
}

// a derived list whose embedded List was never set: every method, serialisation included, panics with a nil
// dereference. Used to check that a panic in the middle of String() leaves nothing behind.
type holeList struct{ List }

func c02AfterPanic(c *oracleCtx) {
	for _, shape := range []string{"list", "object", "nested"} {
		shape := shape
		c.check("after-panic:"+shape, true, func() string {
			inner := NewList(1, "two", NewList(3))
			var root any
			var plug func(v any)
			switch shape {
			case "list":
				l := NewList("a", inner, "slot", NewObject("k", inner))
				root, plug = l, func(v any) { l.Replace(2, v) }
			case "object":
				o := NewObject("a", 1, "slot", 0, "in", inner)
				root, plug = o, func(v any) { o.Set("slot", v) }
			default:
				o := NewObject("x", NewList(inner, NewObject("slot", 0)))
				root, plug = o, func(v any) { o.GetList("x").GetObject(1).Set("slot", v) }
			}
			plug("ok")
			want := serial(root)
			plug(&holeList{})
			if !catch(func() { serial(root) }) {
				return ""
			}
			plug("ok")
			got := ""
			if catch(func() { got = serial(root) }) {
				return "String() panics on a repaired, acyclic container after an earlier String() panicked half-way"
			}
			var ja, jb any
			if json.Unmarshal([]byte(got), &ja) != nil || json.Unmarshal([]byte(want), &jb) != nil || !reflect.DeepEqual(ja, jb) {
				return fmt.Sprintf("String() after a recovered panic gives %q, want %q", got, want)
			}
			if catch(func() { got = serial(inner) }) || !json.Valid([]byte(got)) {
				return "String() of a nested container is affected by an earlier panic"
			}
			return ""
		})
	}
}

func c02Oracle(c *oracleCtx) {
	c02AfterPanic(c)
	c.rule = "same tree set as C01; String() is handed to encoding/json (Valid + Decoder.UseNumber) and the decoded tree compared structurally"
	c.bound = "B-RT tree set (see C01)"
	for _, ts := range treeSpecs(c) {
		ts := ts
		c.check(ts.id, ts.id != "L()" && ts.id != "O()", func() string {
			t := ts.make()
			s := serial(t)
			if !utf8.ValidString(s) {
				return fmt.Sprintf("String() %q is not valid UTF-8", s)
			}
			if !json.Valid([]byte(s)) {
				return fmt.Sprintf("String() %q is not valid JSON (RFC 8259)", s)
			}
			d := json.NewDecoder(strings.NewReader(s))
			d.UseNumber()
			var j any
			if err := d.Decode(&j); err != nil {
				return "decoder error: " + err.Error()
			}
			return jsonTreeEqual(t, j)
		})
	}
}

// FormatString reflects the current content: also when a nested container was changed through its own handle
// between two calls with the same indent
func c16AfterNestedChange(c *oracleCtx) {
	for indent := 0; indent <= 10; indent += 2 {
		indent := indent
		c.check(fmt.Sprintf("fmt-after-nested-change:%d", indent), true, func() string {
			inner, deep := NewList(1), NewObject("d", NewList())
			o := NewObject("l", inner, "o", deep, "n", 1)
			l := NewList(inner, deep, "s")
			agree := func(what string, got string, src string) string {
				var buf bytes.Buffer
				json.Indent(&buf, []byte(src), "", strings.Repeat(" ", indent))
				var a, b any
				if json.Unmarshal([]byte(got), &a) != nil || json.Unmarshal([]byte(src), &b) != nil || !reflect.DeepEqual(a, b) {
					return fmt.Sprintf("%s FormatString(%d) denotes other data than String() (stale text?): %q vs %q", what, indent, got, src)
				}
				if _, isList := b.([]any); isList && got != buf.String() {
					return fmt.Sprintf("%s FormatString(%d) is not the canonical layout", what, indent)
				}
				return ""
			}
			for step := 0; step < 4; step++ {
				if m := agree("object", o.FormatString(indent), o.String()); m != "" {
					return m
				}
				if m := agree("list", l.FormatString(indent), l.String()); m != "" {
					return m
				}
				switch step {
				case 0:
					inner.Add("added")
				case 1:
					deep.GetList("d").Add(NewObject("x", 1))
				case 2:
					o.SetTF(".o.d#0.x", 2)
				}
			}
			return ""
		})
	}
}

func c16Oracle(c *oracleCtx) {
	c16AfterNestedChange(c)
	c.rule = "B-RT trees x indents -1..11: FormatString(n) must be non-empty valid JSON equal to json.Indent(String()) and denote the same data; indents outside 0..10 must panic"
	c.bound = "B-RT tree set x 13 indents"
	specs := treeSpecs(c)
	for i, ts := range specs {
		ts := ts
		if !c.thorough && i%3 != 0 && !strings.Contains(ts.id, "s6") && !strings.Contains(ts.id, "s7") {
			continue
		}
		for n := -1; n <= 11; n++ {
			n := n
			c.check(fmt.Sprintf("%s@%d", ts.id, n), true, func() string {
				t := ts.make()
				var out string
				p := catch(func() {
					if l, ok := t.(List); ok {
						out = l.FormatString(n)
					} else {
						out = t.(Object).FormatString(n)
					}
				})
				if n < 0 || n > 10 {
					if !p {
						return "no panic for an indent outside 0..10"
					}
					return ""
				}
				if p {
					return "panic for a legal indent"
				}
				if out == "" {
					return fmt.Sprintf("FormatString(%d) is empty for %s", n, serial(t))
				}
				if !json.Valid([]byte(out)) {
					return fmt.Sprintf("FormatString(%d) %q is not valid JSON", n, out)
				}
				var buf2 bytes.Buffer
				if err := json.Indent(&buf2, []byte(out), "", strings.Repeat(" ", n)); err != nil || buf2.String() != out {
					return "re-indenting FormatString output canonically does not reproduce it"
				}
				var compact bytes.Buffer
				json.Compact(&compact, []byte(out))
				back, err := reparse(t, compact.String())
				if err != nil || !kindsEqual(t, back) {
					return "FormatString output does not denote the same data as the container"
				}
				if !equalsT(t, ts.make()) {
					return "container modified"
				}
				return ""
			})
		}
	}
}

// ---------------------------------------------------------------------------
// C03: foreign but valid JSON against encoding/json

func jsonDocs(c *oracleCtx) []string {
	ws := []string{"", " ", "\n\t\r "}
	scalars := []string{"null", "true", "false", "0", "-0", "1", "-1", "10", "1E5", "1e+5", "1e-5", "1.0", "0.5", "-1.5e3", "9223372036854775807", "9223372036854775808", "-9223372036854775808", "12345678901234567", "1.7976931348623157e308", "0.1e1",
		`""`, `"a"`, `"\""`, `"\\"`, `"\/"`, `"\b\f\n\r\t"`, `"\u0041"`, `"\u00e9"`, `"\uD83D\uDE00"`, `"\ud83d\ude00"`, `" "`, `"é"`, `"` + "\uFFFD" + `"`, `"😀"`, `"a\\\"b"`, `"[{,:}]"`, `"\u0000"`, `"/"`, `"\u2028"`,
		`"\udbff\udfff"`, `"\udbff\udc00"`, `"\udbc0\udc00"`, `"\ud800\udc00"`, `"\udbfe\udfff"`, `"\ud83d\udfff"`, `"\udb40\udc01"`,
		"\"\x7f\"", "\"a\u0080b\"", "\"\u0085\"", "\"\u009f\"", "\"\u00a0\"", "\"\u2028\"", "\"\ufeff\"",
		`"C:\\temp\\new\u00e9"`, `"\\u0041 and \u0042"`, `"\\n\u000a"`, `"\\\\\u005c"`, `"a\u0001"`, `"\u001b"`, `"x\\"`, `"\\/\/"`, `"\t\\t\u0009"`,
		"9007199254740993", "1234567890123456789", "-9007199254740993", "4611686018427387905", "123456789012345678", "1e2", "100", "0e0", "0.0", "-0.0", "2E+2",
		`"\ud800"`, `"\ud800\u0041"`, `"\udc00\ud83d\ude00"`, `"\ud800x"`, `"x\udfff"`, `"\ud83d\u00e9"`}
	var docs []string
	for _, s := range scalars {
		for _, w := range ws {
			docs = append(docs, "["+w+s+w+"]", "{"+w+`"k"`+w+":"+w+s+w+"}", "["+s+","+w+s+"]", `{"a":`+s+`,"a":1}`, `{"a":[`+s+`],"b":{"c":`+s+`}}`)
		}
	}
	keys := []string{"\"k\x7f\"", "\"\u0085\"", `"\udbff\udfff"`, `"a\\\\"`, `""`, `"a b"`, `"\""`, `"\/"`, `"\u0041"`, `"\uD83D\uDE00"`, `"é"`, `"a.b#c"`}
	for _, k := range keys {
		docs = append(docs, "{"+k+":1}", "{"+k+":{"+k+":[]}}")
	}
	// a string ending in an escaped backslash followed by strings containing "//" (comment look-alikes), "/*", "#"
	docs = append(docs, `["C:\\","http://x/y"]`, `{"p":"a\\","u":"file:///x","n":1}`, "{\"p\":\"a\\\\\",\n\"u\":\"http://h\",\n\"k\":[1,2]}", `["/* c */","# h","a//b"]`, `["\\\\","//"]`)
	// many records whose last member is a container (a per-document counter that leaks would trip here)
	{
		var sb strings.Builder
		sb.WriteString("[")
		for i := 0; i < 10050; i++ {
			if i > 0 {
				sb.WriteString(",")
			}
			sb.WriteString(`{"a":[1]}`)
		}
		sb.WriteString(`,[[{"z":{}}]]]`)
		docs = append(docs, sb.String())
		var so strings.Builder
		so.WriteString("{")
		for i := 0; i < 10050; i++ {
			so.WriteString(`"k` + strconv.Itoa(i) + `":{"a":{}},`)
		}
		so.WriteString(`"last":[[1]]}`)
		docs = append(docs, so.String())
	}
	docs = append(docs, "[]", "{}", "[[]]", "[{}]", `{"a":{}}`, "[[[[1]]]]", "[1,[2,[3,[4]]],{\"a\":[5]}]", " \n[1]\n ", "\n{\"a\":1}\n")
	return docs
}

func fromJSON(j any) any {
	switch x := j.(type) {
	case []any:
		l := NewList()
		for _, e := range x {
			l.Add(fromJSON(e))
		}
		return l
	case map[string]any:
		o := NewObject()
		for k, e := range x {
			o.Set(k, fromJSON(e))
		}
		return o
	case json.Number:
		s := x.String()
		if !strings.ContainsAny(s, ".eE") {
			if i, err := strconv.ParseInt(s, 10, 64); err == nil {
				return int(i)
			}
		}
		f, _ := strconv.ParseFloat(s, 64)
		return f
	}
	return j
}

func c03Oracle(c *oracleCtx) {
	c.rule = "RFC 8259 documents built from number / escape / whitespace spellings, compared with encoding/json (UseNumber): integer-syntax numbers that fit int become int, others the correctly rounded float64"
	docs := jsonDocs(c)
	c.bound = fmt.Sprintf("B-GRAM: %d documents (every scalar spelling x 3 whitespace layouts x 5 shapes, key spellings, nestings)", len(docs))
	for _, d := range docs {
		d := d
		c.check(d, true, func() string {
			if !json.Valid([]byte(d)) {
				return ""
			}
			dec := json.NewDecoder(strings.NewReader(d))
			dec.UseNumber()
			var j any
			if err := dec.Decode(&j); err != nil {
				return ""
			}
			want := fromJSON(j)
			var got any
			var err error
			if strings.HasPrefix(strings.TrimSpace(d), "[") {
				got, err = ParseList(d)
			} else {
				got, err = ParseObject(d)
			}
			if err != nil {
				return "valid JSON rejected: " + err.Error()
			}
			if !kindsEqual(want, got) {
				return fmt.Sprintf("parsed as %s, reference decoder gives %s", serial(got), serial(want))
			}
			return ""
		})
	}
}

// ---------------------------------------------------------------------------
// C04: totality, exclusiveness, prefixes, ill-formed UTF-8

func c04Oracle(c *oracleCtx) {
	c.rule = "proper prefixes and UTF-8 corruptions of serialised B-RT documents, arbitrary short byte strings over a JSON alphabet; outcome must be (value,nil) xor (nil,err), deterministic, no panic; prefixes and ill-formed UTF-8 inside the root must be rejected"
	// the outcome is a function of the input alone: not of what was parsed before (no state carried between calls)
	c.check("history-independence", true, func() string {
		inputs := []string{`["\x41"]`, `["a\/b"]`, `["\ud83d\ude00"]`, `["\a\v"]`, "[\"a\nb\"]", `["\q"]`, `["\U0001F600"]`, `["\101"]`, `{"k\/":"\x41"}`, `["plain"]`, `[1,"\u0041"]`, `["\ud800"]`, `{"a":[1,{"b":"\/"}]}`, `["\x41","\/"]`, `[tru]`, `{"a":1`}
		show := func(in string) string {
			if strings.HasPrefix(in, "[") {
				l, err := ParseList(in)
				if err != nil {
					return "error: " + err.Error()
				}
				return l.String()
			}
			o, err := ParseObject(in)
			if err != nil {
				return "error: " + err.Error()
			}
			return o.String()
		}
		first := map[string]string{}
		for _, in := range inputs {
			first[in] = show(in)
		}
		for round := 0; round < 3; round++ {
			for i := len(inputs) - 1; i >= 0; i-- {
				if got := show(inputs[i]); got != first[inputs[i]] {
					return fmt.Sprintf("parsing %q gives %q now and gave %q before other inputs had been parsed", inputs[i], got, first[inputs[i]])
				}
			}
			for _, in := range inputs {
				if got := show(in); got != first[in] {
					return fmt.Sprintf("parsing %q gives %q now and gave %q before other inputs had been parsed", in, got, first[in])
				}
			}
		}
		// a fresh process would decode these the same way: compare with the decoding of the same literal alone
		return ""
	})
	bad := []string{"\x80", "\xc3", "\xc0\xaf", "\xed\xa0\x80", "\xf5\x80\x80\x80", "\xe2\x82"}
	n := 0
	specs := treeSpecs(c)
	for i, ts := range specs {
		if !c.thorough && i%2 == 1 {
			continue
		}
		t := ts.make()
		s := serial(t)
		_, isList := t.(List)
		parse := func(x string) (any, error) {
			if isList {
				l, err := ParseList(x)
				if l == nil {
					return nil, err
				}
				return l, err
			}
			o, err := ParseObject(x)
			if o == nil {
				return nil, err
			}
			return o, err
		}
		for cut := 0; cut < len(s); cut++ {
			cut := cut
			n++
			c.check(fmt.Sprintf("prefix:%s:%d", ts.id, cut), cut > 0, func() string {
				v, err := parse(s[:cut])
				if (v == nil) == (err == nil) {
					return fmt.Sprintf("outcome of %q is not exclusive", s[:cut])
				}
				if err == nil {
					return fmt.Sprintf("proper prefix %q of %q accepted", s[:cut], s)
				}
				return ""
			})
		}
		for bi, b := range bad {
			for pos := 1; pos < len(s); pos++ {
				if !utf8.RuneStart(s[pos]) {
					continue
				}
				pos, b := pos, b
				c.check(fmt.Sprintf("utf8:%s:%d:%d", ts.id, bi, pos), true, func() string {
					x := s[:pos] + b + s[pos:]
					v, err := parse(x)
					if (v == nil) == (err == nil) {
						return "outcome not exclusive"
					}
					if err == nil {
						return fmt.Sprintf("ill-formed UTF-8 accepted in %q", x)
					}
					return ""
				})
			}
		}
	}
	// arbitrary garbage: totality, exclusiveness, determinism
	alpha := []string{"[", "]", "{", "}", ",", ":", "\"", "\\", "a", "1", " ", "\n", "t", "\xff", "é", "-", "."}
	var gen func(prefix string, d int)
	maxd := 4
	if c.thorough {
		maxd = 5
	}
	gen = func(prefix string, d int) {
		c.check("raw:"+strconv.Quote(prefix), true, func() string {
			for _, f := range []func(string) (any, error){
				func(x string) (any, error) {
					l, e := ParseList(x)
					if l == nil {
						return nil, e
					}
					return l, e
				},
				func(x string) (any, error) {
					o, e := ParseObject(x)
					if o == nil {
						return nil, e
					}
					return o, e
				}} {
				v1, e1 := f(prefix)
				v2, e2 := f(prefix)
				if (v1 == nil) == (e1 == nil) {
					return "outcome not exclusive"
				}
				if (e1 == nil) != (e2 == nil) || (v1 != nil && !equalsT(v1, v2)) {
					return "non-deterministic outcome"
				}
			}
			return ""
		})
		if d == maxd {
			return
		}
		for _, a := range alpha {
			gen(prefix+a, d+1)
		}
	}
	gen("", 0)
	// ParseFile
	dir, _ := os.MkdirTemp("", "verif-c04-")
	defer os.RemoveAll(dir)
	for i, body := range []string{`{"a":1}`, `{"a":`, "", "[1]", "{\"k\":\"\xff\"}", " \n {\"x\":[1,2]} trailing"} {
		i, body := i, body
		c.check(fmt.Sprintf("file:%d", i), true, func() string {
			fp := filepath.Join(dir, fmt.Sprintf("f%d.json", i))
			os.WriteFile(fp, []byte(body), 0o600)
			o1, e1 := ParseFile(fp)
			o2, e2 := ParseObject(body)
			if (e1 == nil) != (e2 == nil) || (e1 == nil && !o1.Equals(o2)) || (o1 == nil) == (e1 == nil) {
				return "ParseFile disagrees with ParseObject on the file's bytes"
			}
			return ""
		})
	}
	// files larger than any plausible read buffer: ParseFile sees exactly the bytes of the file
	c.check("file:large", true, func() string {
		big := NewObject("a", NewObject("b", NewList(NewList(0))), "z", NewList())
		for i := 0; i < 3000; i++ {
			big.GetList("z").Add(NewList(1, 1, 1))
		}
		doc := big.String()
		for _, cut := range []int{4095, 4096, 4097, 4108, 4109, 8191, 8192, 8193, 8200, 12289, len(doc) - 1, len(doc)} {
			if cut > len(doc) {
				continue
			}
			fp := filepath.Join(dir, fmt.Sprintf("big%d.json", cut))
			os.WriteFile(fp, []byte(doc[:cut]), 0o600)
			o1, e1 := ParseFile(fp)
			o2, e2 := ParseObject(doc[:cut])
			if (e1 == nil) != (e2 == nil) || (o1 == nil) == (e1 == nil) || (e1 == nil && !o1.Equals(o2)) {
				return fmt.Sprintf("ParseFile disagrees with ParseObject on the first %d bytes of a %d-byte document (errors %v / %v)", cut, len(doc), e1, e2)
			}
			if cut < len(doc) && e1 == nil {
				return fmt.Sprintf("ParseFile accepts a file cut off after %d of %d bytes", cut, len(doc))
			}
		}
		return ""
	})
	// paths that are not regular files: a named pipe reports size 0 and still delivers a document, a symbolic link
	// delivers the bytes of its target, a directory cannot be read (round O/P, C04-O)
	c.check("file:fifo", true, func() string {
		for i, doc := range []string{`{"a":1,"b":["x",null,{"c":2.5}]}`, `{"a":`, ""} {
			fp := filepath.Join(dir, fmt.Sprintf("doc%d.fifo", i))
			if err := syscall.Mkfifo(fp, 0o600); err != nil {
				return "" // no named pipes here: nothing to observe
			}
			doc := doc
			go func() {
				w, err := os.OpenFile(fp, os.O_WRONLY, 0) // blocks until a reader opens the pipe
				if err != nil {
					return
				}
				w.WriteString(doc)
				w.Close()
			}()
			type outcome struct {
				o Object
				e error
			}
			done := make(chan outcome, 1)
			go func() {
				defer func() {
					if r := recover(); r != nil {
						done <- outcome{nil, fmt.Errorf("panic: %v", r)}
					}
				}()
				o, e := ParseFile(fp)
				done <- outcome{o, e}
			}()
			var got outcome
			timedOut := false
			select {
			case got = <-done:
			case <-time.After(20 * time.Second):
				timedOut = true
			}
			// release the writer if nobody ever opened the pipe for reading
			if fd, err := syscall.Open(fp, syscall.O_RDONLY|syscall.O_NONBLOCK, 0); err == nil {
				time.Sleep(20 * time.Millisecond)
				syscall.Close(fd)
			}
			if timedOut {
				return "ParseFile does not return on a named pipe whose writer delivers a document and closes"
			}
			o2, e2 := ParseObject(doc)
			if (got.e == nil) != (e2 == nil) || (got.o == nil) == (got.e == nil) || (got.e == nil && !got.o.Equals(o2)) {
				return fmt.Sprintf("ParseFile on a named pipe delivering %q disagrees with ParseObject on those bytes (errors %v / %v)", doc, got.e, e2)
			}
		}
		return ""
	})
	c.check("file:symlink-dir", true, func() string {
		target := filepath.Join(dir, "target.json")
		os.WriteFile(target, []byte(`{"s":[1,2,{"t":null}]}`), 0o600)
		link := filepath.Join(dir, "link.json")
		if err := os.Symlink(target, link); err == nil {
			o1, e1 := ParseFile(link)
			o2, _ := ParseObject(`{"s":[1,2,{"t":null}]}`)
			if e1 != nil || o1 == nil || !o1.Equals(o2) {
				return fmt.Sprintf("ParseFile through a symbolic link disagrees with ParseObject on the target's bytes (error %v)", e1)
			}
		}
		if o, err := ParseFile(dir); o != nil || err == nil {
			return "a directory given to ParseFile is not reported as unreadable"
		}
		return ""
	})
	c.check("file:missing", true, func() string {
		o, err := ParseFile(filepath.Join(dir, "does-not-exist.json"))
		if o != nil || err == nil {
			return "missing file not reported"
		}
		return ""
	})
	c.bound = "B-PFX: all proper prefixes and 6 kinds of ill-formed UTF-8 at every rune boundary of the serialised B-RT documents; all byte strings of length <= 4 (thorough 5) over a 17-symbol alphabet; 7 files, 3 named pipes, a symbolic link, a directory"
}

// ---------------------------------------------------------------------------
// C20: error lines

var reLine = regexp.MustCompile(`line (\d+)`)

func c20Oracle(c *oracleCtx) {
	c.rule = "documents with one injected syntax error (unexpected character or invalid literal) and newlines distributed before / inside / after; the cited line must be 1 + number of newlines before the detected character"
	type tpl struct {
		id   string
		pre  string // text before the offending token (may contain %n placeholders for newline blocks)
		bad  string // offending text; the detected character is given by off
		off  int    // index within bad of the detected character
		post string
	}
	// detected character: for invalid literals the delimiter that terminates them
	tpls := []tpl{
		{"obj-key", `{%n"a":1,%n`, `x`, 0, `"b":2}`},
		{"obj-colon", `{%n"a"%n`, `;`, 0, `1}`},
		{"obj-after-nested", `{"a":%n[1]%n`, `x`, 0, `}`},
		{"obj-after-nested-obj", `{"a":%n{"b":[%n]}%n`, `1`, 0, `}`},
		{"list-literal", `[%n1,%n`, `tru,`, 3, `2]`},
		{"list-literal-end", `[%n`, `nul%n]`, -1, ``},
		{"obj-literal", `{"a":%n`, `1x%n}`, -1, ``},
		{"nested-literal", `%n[%n{"k":%n[`, `abc,`, 3, `1]}]`},
		{"nested-key", `xx%n{"o":{%n"p":[%n{`, `1`, 0, `}]}}`},
		{"prefix-text", `garbage%nmore%n[%n`, `nope]`, 4, ``},
		{"str-newline-list", "[%n\"ab%ncd\\\"e%nf\",%n", `tru,`, 3, `1]`},
		{"str-newline-obj", "{\"k\":%n\"v%nw\",\"o\":{\"s\":\"%nx%ny\"},%n", `x`, 0, `"b":2}`},
		{"key-newline-obj", "{\"k%nk\":1,%n", `x`, 0, `"b":2}`},
		// a backslash directly followed by a raw newline inside a string / key (the newline still counts)
		{"str-bs-newline-list", "[\"ab\\%ncd\",%n", `tru,`, 3, `1]`},
		{"str-bs-newline-obj", "{\"k\":\"v\\%nw\",%n", `x`, 0, `"b":2}`},
		{"key-bs-newline-obj", "{\"k\\%nk\":{%n", `x`, 0, `"b":2}}`},
		// an invalid literal that itself spans lines (a missing comma): the cited line is that of the terminating delimiter
		{"literal-spans-lines-list", "[%n", "tru\ne1,", 6, `2]`},
		{"missing-comma-obj", "{\n \"a\": 1%n\n \"b\": 2\n", "}", 0, ``},
		// long invalid literals (a missing quote, a runaway number): still reported at their delimiter, however long
		{"long-literal-list", `[%n1,`, strings.Repeat("x", 300) + `%n,`, -1, `2]`},
		{"long-literal-end-list", `[%n`, strings.Repeat("9", 5000) + `e%n]`, -1, ``},
		{"long-literal-obj", `{"a":%n`, strings.Repeat("ab", 200) + `%n}`, -1, ``},
		{"long-literal-nested", `{"a":[%n{"k":`, strings.Repeat("tru", 100) + "\n" + strings.Repeat("e", 100) + `%n,`, -1, `"z":1}]}`},
		// nested empty containers spread over lines, closed where a key / value could start, before a later error
		{"empty-obj-lines-list", "[{\n%n},{\n},\n", `tru,`, 3, `1]`},
		{"empty-obj-lines-obj", "{\"a\":{\n%n\n},\"b\":{%n},\n", `x`, 0, `"c":1}`},
		{"trailing-comma-nested", "{\"a\":{\"b\":1,\n%n},\n", `;`, 0, `"c":1}`},
		{"empty-list-lines", "[[\n%n],[\n],\n", `nul,`, 3, `1]`},
		// carriage returns are not line breaks: lone CR, CR LF
		{"cr-list", "[\r1,\r%n2,\r\r", `tru,`, 3, `1]`},
		{"cr-obj", "{\r\"a\":1,\r%n\r", `x`, 0, `"b":2}`},
		{"cr-in-string", "[\"a\rb\",%n\r", `nul,`, 3, `1]`},
		{"crlf-obj", "{\r\n\"a\":1,\r\n%n", `x`, 0, `"b":2}`},
		// other Unicode line separators are not line breaks either
		{"nel-ls-list", "[\"\u0085\u2028\u2029\",\u2028%n", `tru,`, 3, `1]`},
		{"vt-ff-list", "[\v\f%n", `tru,`, 3, `1]`},
	}
	nls := []string{"", "\n", "\n\n", " \n \n\n"}
	for _, t := range tpls {
		for a, n1 := range nls {
			for b, n2 := range nls {
				t, n1, n2 := t, n1, n2
				c.check(fmt.Sprintf("%s:%d:%d", t.id, a, b), a+b > 0, func() string {
					fill := func(s string) string {
						k := 0
						return regexp.MustCompile(`%n`).ReplaceAllStringFunc(s, func(string) string {
							k++
							if k%2 == 1 {
								return n1
							}
							return n2
						})
					}
					pre, bad, post := fill(t.pre), fill(t.bad), fill(t.post)
					off := t.off
					if off < 0 {
						off = len(bad) - 1 // the closing delimiter after the newline block
					}
					doc := pre + bad + post
					want := 1 + strings.Count(doc[:len(pre)+off], "\n")
					var err error
					if i, j := strings.Index(doc, "["), strings.Index(doc, "{"); i >= 0 && (j < 0 || i < j) {
						_, err = ParseList(doc)
					} else {
						_, err = ParseObject(doc)
					}
					if err == nil {
						return "" // leniency of the parser is not the subject of C20
					}
					m := reLine.FindStringSubmatch(err.Error())
					if m == nil {
						return ""
					}
					got, _ := strconv.Atoi(m[1])
					if got != want {
						return fmt.Sprintf("error %q cites line %d, the detected character is on line %d in %q", err.Error(), got, want, doc)
					}
					return ""
				})
			}
		}
	}
	// through ParseFile
	dir, _ := os.MkdirTemp("", "verif-c20-")
	defer os.RemoveAll(dir)
	for i, doc := range []string{"\n\n{\"a\":\n x}", "\n \n\n{\n\"a\":1,\n;}", "{\"a\":[1,\n2,\ntru,3]}", "\r\r{\r\"a\":\r x}", "\n\n\n  {\"a\":1,\n\n x}\n\n"} {
		i, doc := i, doc
		c.check(fmt.Sprintf("file:%d", i), true, func() string {
			fp := filepath.Join(dir, fmt.Sprintf("e%d.json", i))
			os.WriteFile(fp, []byte(doc), 0o600)
			_, e1 := ParseFile(fp)
			_, e2 := ParseObject(doc)
			if e1 == nil || e2 == nil || e1.Error() != e2.Error() {
				return fmt.Sprintf("ParseFile error %v differs from ParseObject error %v", e1, e2)
			}
			return ""
		})
	}
	c.bound = fmt.Sprintf("%d templates x 16 newline distributions + 3 files", len(tpls))
}

func init() {
	oracles["C01"] = c01Oracle
	oracles["C02"] = c02Oracle
	oracles["C03"] = c03Oracle
	oracles["C04"] = c04Oracle
	oracles["C16"] = c16Oracle
	oracles["C20"] = c20Oracle
}
