package anytype

// Replay / bounded-oracle harness of /verif (injected with `go test -overlay`;
// never part of the repository). Each property has a hand-written oracle that
// restates the property over a small, exhaustively enumerated scope and runs the
// REAL functions. It is used (a) to turn a failed proof obligation into a
// concrete failing input, (b) as the labelled bounded stand-in where DESIGN.md
// says so. It never turns a failed obligation into a pass.

import (
	"encoding/json"
	"fmt"
	"math/rand"
	"os"
	"strconv"
	"strings"
	"testing"
)

type oracleCtx struct {
	evals    int
	distinct map[string]bool
	nfails   int
	filter   map[string]bool
	samples  []string
	thorough bool
	rng      *rand.Rand
	bound    string
	rule     string
}

// check runs one case. f returns "" when the property holds on the case.
func (c *oracleCtx) check(id string, nontrivial bool, f func() string) {
	if c.filter != nil && !c.filter[id] {
		return
	}
	c.evals++
	if nontrivial {
		c.distinct[id] = true
	}
	if len(c.samples) < 4 && nontrivial && c.evals%7 == 1 {
		c.samples = append(c.samples, id)
	}
	msg := func() (m string) {
		defer func() {
			if r := recover(); r != nil {
				m = fmt.Sprintf("unexpected panic: %v", r)
			}
		}()
		return f()
	}()
	if msg != "" {
		c.nfails++
		if c.nfails <= 25 {
			b, _ := json.Marshal(map[string]string{"case": id, "msg": msg})
			fmt.Println("ORACLE-FAIL " + string(b))
		}
	}
}

var oracles = map[string]func(*oracleCtx){}

// wrappers applied after every file's init has registered its oracles
var oraclesLate []func()

func TestVerifOracle(t *testing.T) {
	id := os.Getenv("VERIF_ORACLE")
	for _, f := range oraclesLate {
		f()
	}
	oraclesLate = nil
	o := oracles[id]
	if o == nil {
		t.Skip("no oracle for " + id)
	}
	seed, _ := strconv.ParseInt(os.Getenv("VERIF_SEED"), 10, 64)
	c := &oracleCtx{distinct: map[string]bool{}, thorough: os.Getenv("VERIF_TIER") == "thorough", rng: rand.New(rand.NewSource(seed))}
	if cs := os.Getenv("VERIF_CASES"); cs != "" {
		c.filter = map[string]bool{}
		for _, k := range strings.Split(cs, "\x1f") {
			c.filter[k] = true
		}
	}
	o(c)
	b, _ := json.Marshal(map[string]interface{}{"evaluations": c.evals, "distinct": len(c.distinct), "rule": c.rule, "bound": c.bound, "samples": c.samples})
	fmt.Println("ORACLE-STATS " + string(b))
}

// catch runs f and reports whether it panicked.
func catch(f func()) (panicked bool) {
	defer func() {
		if r := recover(); r != nil {
			panicked = true
		}
	}()
	f()
	return false
}

// same compares two Get-values: containers by identity, scalars by value and type.
func same(a, b any) bool {
	switch x := a.(type) {
	case List:
		y, ok := b.(List)
		return ok && x == y
	case Object:
		y, ok := b.(Object)
		return ok && x == y
	}
	return a == b
}

// snapshot of a list: the Get-values in order (containers by reference).
func snapL(l List) []any {
	out := make([]any, l.Count())
	for i := range out {
		out[i] = l.Get(i)
	}
	return out
}

func sameSeq(a, b []any) bool {
	if len(a) != len(b) {
		return false
	}
	for i := range a {
		if !same(a[i], b[i]) {
			return false
		}
	}
	return true
}

func show(v any) string {
	switch x := v.(type) {
	case List:
		return x.String()
	case Object:
		return x.String()
	case []any:
		var ss []string
		for _, e := range x {
			ss = append(ss, show(e))
		}
		return "[" + strings.Join(ss, ",") + "]"
	}
	return fmt.Sprintf("%#v", v)
}

func newRng(seed int64) *rand.Rand { return rand.New(rand.NewSource(seed)) }
