package anytype

// C05 / C09 (and the list part of C19): model-based oracle. A pool of live
// lists is driven by a sequence of operations; after every step every live
// list is compared with a sequence model (scalars by value, containers by
// reference), panics must occur exactly on the documented domain and leave
// every list unchanged, fluent results must be the receiver, derived results
// must be independent of everything else.

import (
	"fmt"
	"reflect"
	"sort"
	"strconv"
	"strings"
	"sync"
)

type lop struct {
	kind    string
	a, x, y int
}

func (o lop) String() string { return fmt.Sprintf("%s:%d:%d:%d", o.kind, o.a, o.x, o.y) }

func parseLop(s string) lop {
	f := strings.Split(s, ":")
	a, _ := strconv.Atoi(f[1])
	x, _ := strconv.Atoi(f[2])
	y, _ := strconv.Atoi(f[3])
	return lop{f[0], a, x, y}
}

type lworld struct {
	lists  []List
	models [][]any
	nested List
	nobj   Object
}

type unsupportedT struct{}

func (w *lworld) value(i int) (v any, supported bool) {
	switch i {
	case 0:
		return 7, true
	case 1:
		return "s", true
	case 2:
		return w.nested, true
	case 3:
		return nil, true
	case 4:
		return unsupportedT{}, false
	case 5:
		return w.nobj, true
	}
	return 2.5, true
}

func newLWorld(variant int) *lworld {
	w := &lworld{nested: NewList(1), nobj: NewObject("k", 1)}
	add := func(l List, m []any) {
		w.lists = append(w.lists, l)
		w.models = append(w.models, m)
	}
	switch variant {
	case 0:
		add(NewList(1, 2, 3), []any{1, 2, 3})
		add(NewList(), []any{})
	case 1: // spare capacity after Pop
		add(NewList(1, 2, 3, 4).Pop(), []any{1, 2, 3})
		add(NewList("x"), []any{"x"})
	case 2: // growth history through single Adds, shared nested container
		l := NewList()
		l.Add(1)
		l.Add(w.nested)
		l.Add("z")
		add(l, []any{1, w.nested, "z"})
		add(NewList(w.nested, 5), []any{w.nested, 5})
	default: // spare capacity after Delete in the middle, even length
		add(NewList(1, 2, 3, 4, 5).Delete(1), []any{1, 3, 4, 5})
		add(NewList(9).Clear(), []any{})
	}
	return w
}

func (w *lworld) compare() string {
	for i, l := range w.lists {
		if got := snapL(l); !sameSeq(got, w.models[i]) {
			return fmt.Sprintf("list #%d is %s, sequence model says %s", i, show(got), show(w.models[i]))
		}
		if l.Count() != len(w.models[i]) || l.Empty() != (len(w.models[i]) == 0) {
			return fmt.Sprintf("list #%d Count/Empty disagree with the model", i)
		}
	}
	return ""
}

// apply runs one operation on the real lists and on the model.
func (w *lworld) apply(o lop) string {
	if o.a >= len(w.lists) {
		return ""
	}
	l, m := w.lists[o.a], w.models[o.a]
	n := len(m)
	var ret any
	fluent := false
	var wantPanic bool
	var newModel []any
	var derived []any
	isDerived := false
	switch o.kind {
	case "Add":
		v, ok := w.value(o.x)
		wantPanic = !ok
		newModel = append(append([]any{}, m...), v)
		fluent = true
		if catch(func() { ret = l.Add(v) }) != wantPanic {
			return fmt.Sprintf("Add(%v): panic=%v, expected %v", v, !wantPanic, wantPanic)
		}
	case "Insert":
		v, ok := w.value(o.y)
		wantPanic = !ok || o.x < 0 || o.x > n
		if !wantPanic {
			newModel = append(append(append([]any{}, m[:o.x]...), v), m[o.x:]...)
		}
		fluent = true
		if catch(func() { ret = l.Insert(o.x, v) }) != wantPanic {
			return fmt.Sprintf("Insert(%d,%v) on length %d: panic=%v, expected %v", o.x, v, n, !wantPanic, wantPanic)
		}
	case "Replace":
		v, ok := w.value(o.y)
		wantPanic = !ok || o.x < 0 || o.x >= n
		if !wantPanic {
			newModel = append([]any{}, m...)
			newModel[o.x] = v
		}
		fluent = true
		if catch(func() { ret = l.Replace(o.x, v) }) != wantPanic {
			return fmt.Sprintf("Replace(%d,%v) on length %d: panic=%v, expected %v", o.x, v, n, !wantPanic, wantPanic)
		}
	case "Delete":
		wantPanic = o.x < 0 || o.x >= n
		if !wantPanic {
			newModel = append(append([]any{}, m[:o.x]...), m[o.x+1:]...)
		}
		fluent = true
		if catch(func() { ret = l.Delete(o.x) }) != wantPanic {
			return fmt.Sprintf("Delete(%d) on length %d: panic=%v, expected %v", o.x, n, !wantPanic, wantPanic)
		}
	case "Delete2":
		// two distinct indices, in either order
		a, b := o.x, o.y
		if a == b {
			return ""
		}
		wantPanic = a < 0 || a >= n || b < 0 || b >= n
		if !wantPanic {
			for i, e := range m {
				if i != a && i != b {
					newModel = append(newModel, e)
				}
			}
			if newModel == nil {
				newModel = []any{}
			}
		}
		fluent = true
		if catch(func() { ret = l.Delete(a, b) }) != wantPanic {
			return fmt.Sprintf("Delete(%d,%d) on length %d: panic=%v, expected %v", a, b, n, !wantPanic, wantPanic)
		}
		if wantPanic {
			// a multi-index Delete may have removed some elements before panicking: resynchronise the model
			w.models[o.a] = snapL(l)
			return ""
		}
	case "Pop":
		wantPanic = n == 0
		if !wantPanic {
			newModel = append([]any{}, m[:n-1]...)
		}
		fluent = true
		if catch(func() { ret = l.Pop() }) != wantPanic {
			return fmt.Sprintf("Pop on length %d: panic=%v, expected %v", n, !wantPanic, wantPanic)
		}
	case "Clear":
		newModel = []any{}
		fluent = true
		ret = l.Clear()
	case "Reverse":
		newModel = make([]any, n)
		for i := range m {
			newModel[n-1-i] = m[i]
		}
		fluent = true
		ret = l.Reverse()
	case "Get":
		wantPanic = o.x < 0 || o.x >= n
		var got any
		if catch(func() { got = l.Get(o.x) }) != wantPanic {
			return fmt.Sprintf("Get(%d) on length %d: panic=%v, expected %v", o.x, n, !wantPanic, wantPanic)
		}
		if !wantPanic && !same(got, m[o.x]) {
			return fmt.Sprintf("Get(%d) = %s, model says %s", o.x, show(got), show(m[o.x]))
		}
		return w.compare()
	case "IndexOf":
		v, _ := w.value(o.x)
		want := -1
		for i, e := range m {
			if same(e, v) {
				want = i
				break
			}
		}
		if got := l.IndexOf(v); got != want {
			return fmt.Sprintf("IndexOf(%v) = %d, model says %d", v, got, want)
		}
		if l.Contains(v) != (want >= 0) {
			return fmt.Sprintf("Contains(%v) disagrees with the model", v)
		}
		return w.compare()
	case "SubList":
		s, e := o.x, o.y
		ee := e
		wantPanic = e > n || e < -n
		if !wantPanic {
			if e <= 0 {
				ee = n + e
			}
			wantPanic = s > ee || s < 0
		}
		if !wantPanic {
			derived = append([]any{}, m[s:ee]...)
		}
		isDerived = true
		if catch(func() { ret = l.SubList(s, e) }) != wantPanic {
			return fmt.Sprintf("SubList(%d,%d) on length %d: panic=%v, expected %v", s, e, n, !wantPanic, wantPanic)
		}
	case "Concat":
		if o.x >= len(w.lists) {
			return ""
		}
		derived = append(append([]any{}, m...), w.models[o.x]...)
		isDerived = true
		ret = l.Concat(w.lists[o.x])
	case "Slice":
		sl := l.Slice()
		if !sameSeq(sl, m) {
			return fmt.Sprintf("Slice() = %s, model says %s", show(sl), show(m))
		}
		for i := range sl {
			sl[i] = "clobbered"
		}
		return w.compare()
	default:
		return ""
	}
	if wantPanic {
		// a panicking operation leaves every list unchanged
		if msg := w.compare(); msg != "" {
			return "after a panicking " + o.kind + ": " + msg
		}
		return ""
	}
	if isDerived {
		r, ok := ret.(List)
		if !ok || r == nil {
			return o.kind + " returned no list"
		}
		for _, other := range w.lists {
			if other == r {
				return o.kind + " returned one of the existing lists instead of a new one"
			}
		}
		if len(w.lists) < 4 {
			w.lists = append(w.lists, r)
			w.models = append(w.models, derived)
		} else if !sameSeq(snapL(r), derived) {
			return fmt.Sprintf("%s result is %s, model says %s", o.kind, show(snapL(r)), show(derived))
		}
		return w.compare()
	}
	w.models[o.a] = newModel
	if fluent {
		if rl, ok := ret.(List); !ok || rl != l {
			return o.kind + " did not return the receiver"
		}
	}
	return w.compare()
}

func lopsFor(w *lworld) []lop {
	var out []lop
	for a := range w.lists {
		n := len(w.models[a])
		idx := map[int]bool{-1: true, 0: true, 1: true, n - 1: true, n: true, n + 1: true}
		for v := 0; v <= 4; v++ {
			out = append(out, lop{"Add", a, v, 0})
		}
		for i := range idx {
			out = append(out, lop{"Insert", a, i, 0}, lop{"Insert", a, i, 4}, lop{"Insert", a, i, 2},
				lop{"Replace", a, i, 1}, lop{"Replace", a, i, 4}, lop{"Delete", a, i, 0}, lop{"Get", a, i, 0})
		}
		out = append(out, lop{"Delete2", a, 0, n - 1}, lop{"Delete2", a, n - 1, 0}, lop{"Delete2", a, 1, 2}, lop{"Delete2", a, 2, 0}, lop{"Delete2", a, 0, n}, lop{"Delete2", a, -1, 1})
		out = append(out, lop{"Pop", a, 0, 0}, lop{"Clear", a, 0, 0}, lop{"Reverse", a, 0, 0}, lop{"Slice", a, 0, 0},
			lop{"IndexOf", a, 0, 0}, lop{"IndexOf", a, 2, 0}, lop{"IndexOf", a, 6, 0})
		for s := -1; s <= n+1; s++ {
			for e := -n - 1; e <= n+1; e++ {
				if s <= 2 || s >= n-1 {
					out = append(out, lop{"SubList", a, s, e})
				}
			}
		}
		for b := range w.lists {
			out = append(out, lop{"Concat", a, b, 0})
		}
	}
	return out
}

func runLSeq(variant int, ops []lop) string {
	w := newLWorld(variant)
	for i, o := range ops {
		if msg := w.apply(o); msg != "" {
			return fmt.Sprintf("step %d (%s): %s", i+1, o, msg)
		}
	}
	return ""
}

func lcaseID(variant int, ops []lop) string {
	ss := []string{fmt.Sprintf("V%d", variant)}
	for _, o := range ops {
		ss = append(ss, o.String())
	}
	return strings.Join(ss, "|")
}

func listOracle(c *oracleCtx) {
	c05Identity(c)
	rawStrings(c, "list")
	everyStorePath(c)
	typedNativeNils(c)
	removalKeepsChildren(c)
	zeroArgVariadics(c)
	c.rule = "operation sequences on a pool of live lists (4 initial pools incl. spare capacity and shared nested containers), every list compared with a sequence model after every step; a case is non-trivial when it contains a mutation or a derivation; distinct = distinct sequences"
	if c.filter != nil {
		for id := range c.filter {
			f := strings.Split(id, "|")
			v, _ := strconv.Atoi(f[0][1:])
			var ops []lop
			for _, s := range f[1:] {
				ops = append(ops, parseLop(s))
			}
			c.check(id, true, func() string { return runLSeq(v, ops) })
		}
		return
	}
	depthRand, nRand := 4, 6000
	if c.thorough {
		depthRand, nRand = 6, 120000
	}
	c.bound = fmt.Sprintf("all sequences of length <= 2 over 4 pools, plus %d seeded random sequences of length <= %d", nRand, depthRand)
	for v := 0; v < 4; v++ {
		w0 := newLWorld(v)
		for _, o1 := range lopsFor(w0) {
			c.check(lcaseID(v, []lop{o1}), true, func() string { return runLSeq(v, []lop{o1}) })
			w1 := newLWorld(v)
			if w1.apply(o1) != "" {
				continue
			}
			for _, o2 := range lopsFor(w1) {
				ops := []lop{o1, o2}
				c.check(lcaseID(v, ops), true, func() string { return runLSeq(v, ops) })
			}
		}
	}
	for k := 0; k < nRand; k++ {
		v := c.rng.Intn(4)
		w := newLWorld(v)
		var ops []lop
		d := 3 + c.rng.Intn(depthRand-2)
		bad := ""
		for i := 0; i < d && bad == ""; i++ {
			cand := lopsFor(w)
			o := cand[c.rng.Intn(len(cand))]
			ops = append(ops, o)
			bad = w.apply(o)
		}
		c.check(lcaseID(v, ops), true, func() string { return runLSeq(v, ops) })
	}
}

func init() {
	oracles["C05"] = listOracle
	oracles["C09"] = func(c *oracleCtx) {
		// deriving operations on both container kinds: the list pool and the object pool
		c09DeriveTwice(c)
		c09OverlappingReaders(c)
		c09ComparisonOperands(c)
		if c.filter != nil {
			lf, of := map[string]bool{}, map[string]bool{}
			for id := range c.filter {
				if strings.HasPrefix(id, "D2:") {
					continue
				}
				if strings.Contains(id, "|Set") || strings.Contains(id, "|Merge") || strings.Contains(id, "|Pluck") || strings.Contains(id, "|Unset") || strings.Contains(id, "|KeyOf") || strings.Contains(id, "|Getters") || strings.Contains(id, "|Clear:") && strings.Count(id, ":") > 3 {
					of[id] = true
				} else {
					lf[id] = true
				}
			}
			c.filter = lf
			listOracle(c)
			c.filter = of
			if len(of) > 0 {
				c06Oracle(c)
			}
			return
		}
		listOracle(c)
		r1, b1 := c.rule, c.bound
		c06Oracle(c)
		c.rule = r1 + " || objects: " + c.rule
		c.bound = b1 + " || objects: " + c.bound
	}
}

// ---------------------------------------------------------------------------
// C09: every deriving operation, applied twice to the same receiver, yields two independent results:
// distinct top-level storage, and mutating the first result changes neither the receiver nor the
// second result (nor a third one derived afterwards).

type deriveOp struct {
	id string
	f  func(x any) any // nil result: not applicable to this receiver
}

func deriveOps() []deriveOp {
	onL := func(f func(l List) any) func(any) any {
		return func(x any) any {
			if l, ok := x.(List); ok {
				return f(l)
			}
			return nil
		}
	}
	onO := func(f func(o Object) any) func(any) any {
		return func(x any) any {
			if o, ok := x.(Object); ok {
				return f(o)
			}
			return nil
		}
	}
	return []deriveOp{
		{"Clone", onL(func(l List) any { return l.Clone() })},
		{"SubList(0,0)", onL(func(l List) any { return l.SubList(0, 0) })},
		{"SubList(0,n)", onL(func(l List) any { return l.SubList(0, l.Count()) })},
		{"SubList(1,0)", onL(func(l List) any {
			if l.Count() < 1 {
				return nil
			}
			return l.SubList(1, 0)
		})},
		{"Concat(empty)", onL(func(l List) any { return l.Concat(NewList()) })},
		{"Concat(self)", onL(func(l List) any { return l.Concat(l) })},
		{"Concat(one)", onL(func(l List) any { return l.Concat(NewList(5)) })},
		{"Filter(all)", onL(func(l List) any { return l.Filter(func(any) bool { return true }) })},
		{"Filter(none)", onL(func(l List) any { return l.Filter(func(any) bool { return false }) })},
		{"FilterInts", onL(func(l List) any { return l.FilterInts(func(int) bool { return true }) })},
		{"FilterStrings", onL(func(l List) any { return l.FilterStrings(func(string) bool { return true }) })},
		{"FilterObjects", onL(func(l List) any { return l.FilterObjects(func(Object) bool { return true }) })},
		{"FilterLists", onL(func(l List) any { return l.FilterLists(func(List) bool { return true }) })},
		{"Map(id)", onL(func(l List) any { return l.Map(func(_ int, v any) any { return v }) })},
		{"MapValues(id)", onL(func(l List) any { return l.MapValues(func(v any) any { return v }) })},
		{"MapInts", onL(func(l List) any { return l.MapInts(func(i int) any { return i }) })},
		{"MapAsync(id)", onL(func(l List) any { return l.MapAsync(func(_ int, v any) any { return v }) })},
		{"Slice", onL(func(l List) any { return l.Slice() })},
		{"NativeSlice", onL(func(l List) any { return l.NativeSlice() })},
		{"IntSlice", onL(func(l List) any { return l.IntSlice() })},
		{"StringSlice", onL(func(l List) any { return l.StringSlice() })},
		{"ObjectSlice", onL(func(l List) any { return l.ObjectSlice() })},
		{"ListSlice", onL(func(l List) any { return l.ListSlice() })},
		{"O.Clone", onO(func(o Object) any { return o.Clone() })},
		{"O.Keys", onO(func(o Object) any { return o.Keys() })},
		{"O.Values", onO(func(o Object) any { return o.Values() })},
		{"O.Dict", onO(func(o Object) any { return o.Dict() })},
		{"O.NativeDict", onO(func(o Object) any { return o.NativeDict() })},
		{"O.Merge(empty)", onO(func(o Object) any { return o.Merge(NewObject()) })},
		{"O.Merge(self)", onO(func(o Object) any { return o.Merge(o) })},
		{"O.Merge(one)", onO(func(o Object) any { return o.Merge(NewObject("zz", 1)) })},
		{"empty.Merge(O)", onO(func(o Object) any { return NewObject().Merge(o) })},
		{"O.Pluck()", onO(func(o Object) any { return o.Pluck() })},
		{"O.Pluck(a)", onO(func(o Object) any {
			if !o.KeyExists("a") {
				return nil
			}
			return o.Pluck("a")
		})},
		{"O.Map(id)", onO(func(o Object) any { return o.Map(func(_ string, v any) any { return v }) })},
		{"O.MapValues(id)", onO(func(o Object) any { return o.MapValues(func(v any) any { return v }) })},
		{"O.MapAsync(id)", onO(func(o Object) any { return o.MapAsync(func(_ string, v any) any { return v }) })},
	}
}

// topMutate changes the top level of a derived result in every way its type allows.
func topMutate(r any) {
	switch x := r.(type) {
	case List:
		x.Add("mut")
		if x.Count() > 1 {
			x.Replace(0, "rep")
			x.Reverse()
			x.Delete(0)
		}
		x.Insert(0, 42)
		x.Clear()
		x.Add("after-clear")
	case Object:
		x.Set("mut", 1, "a", "over")
		x.Unset("b")
		x.Clear()
		x.Set("after-clear", 1)
	case []any:
		for i := range x {
			x[i] = "mut"
		}
		_ = append(x[:0], "app")
	case []int:
		for i := range x {
			x[i] = -777
		}
	case []string:
		for i := range x {
			x[i] = "mut"
		}
	case []Object:
		for i := range x {
			x[i] = nil
		}
	case []List:
		for i := range x {
			x[i] = nil
		}
	case map[string]any:
		for k := range x {
			x[k] = "mut"
		}
		x["added"] = 1
	}
}

func nativeAny(v any) any {
	switch x := v.(type) {
	case List:
		return x.NativeSlice()
	case Object:
		return x.NativeDict()
	case []any:
		out := make([]any, len(x))
		for i, e := range x {
			out[i] = nativeAny(e)
		}
		return out
	case map[string]any:
		out := map[string]any{}
		for k, e := range x {
			out[k] = nativeAny(e)
		}
		return out
	case []Object:
		out := make([]any, len(x))
		for i, e := range x {
			out[i] = nativeAny(e)
		}
		return out
	case []List:
		out := make([]any, len(x))
		for i, e := range x {
			out[i] = nativeAny(e)
		}
		return out
	case []int:
		return append([]int(nil), x...)
	case []string:
		return append([]string(nil), x...)
	}
	return v
}

func sameTop(a, b any) bool {
	switch x := a.(type) {
	case List:
		y, ok := b.(List)
		return ok && x == y
	case Object:
		y, ok := b.(Object)
		return ok && x == y
	}
	return false
}

func deriveReceivers() []treeGen {
	return []treeGen{
		{"L()", func() any { return NewList() }},
		{"L(1,s,2.5)", func() any { return NewList(1, "s", 2.5) }},
		{"L(1,2,3)+cap", func() any { l := NewList(1, 2, 3, 4, 5); l.Pop(); l.Pop(); return l }},
		{"L(nested)", func() any { return NewList(NewObject("a", 1), NewList(1, 2), "x", 7) }},
		{"L(grown)", func() any { l := NewList(); l.Add(1); l.Add("b"); l.Add(NewList()); return l }},
		{"O()", func() any { return NewObject() }},
		{"O(a,b)", func() any { return NewObject("a", 1, "b", "x") }},
		{"O(nested)", func() any { return NewObject("a", NewList(1), "b", NewObject("k", 2), "c", nil) }},
		{"O(set-unset)", func() any { return NewObject("a", 1, "b", 2, "c", 3).Unset("c").Set("a", NewList()) }},
	}
}

// Contains / IndexOf compare containers by identity: a distinct container with equal content is not found.
func c05Identity(c *oracleCtx) {
	type twin struct {
		id   string
		make func() (held, lookalike any)
	}
	twins := []twin{
		{"empty-lists", func() (any, any) { return NewList(), NewList() }},
		{"empty-objects", func() (any, any) { return NewObject(), NewObject() }},
		{"lists", func() (any, any) { return NewList(1, "x"), NewList(1, "x") }},
		{"objects", func() (any, any) { return NewObject("a", 1), NewObject("a", 1) }},
		{"clone", func() (any, any) { l := NewList(NewObject("k", 1)); return l, l.Clone() }},
		{"nested", func() (any, any) { return NewList(NewList()), NewList(NewList()) }},
	}
	for _, tw := range twins {
		for pos := 0; pos < 3; pos++ {
			tw, pos := tw, pos
			c.check(fmt.Sprintf("ID:%s:%d", tw.id, pos), true, func() string {
				held, look := tw.make()
				elems := []any{1, "s", 2.5}
				elems[pos] = held
				l := NewList(elems...)
				if !l.Contains(held) || l.IndexOf(held) != pos {
					return "the held container is not found by Contains / IndexOf"
				}
				if l.Contains(look) || l.IndexOf(look) != -1 {
					return fmt.Sprintf("Contains / IndexOf find a distinct container with equal content (IndexOf = %d)", l.IndexOf(look))
				}
				l.Add(look)
				if l.IndexOf(look) != 3 || l.IndexOf(held) != pos {
					return "IndexOf does not distinguish two equal-looking containers"
				}
				o := NewObject("h", held, "n", 1)
				if !o.Contains(held) || o.Contains(look) || o.KeyOf(held) != "h" || !catch(func() { o.KeyOf(look) }) {
					return "object Contains / KeyOf do not compare containers by identity"
				}
				return ""
			})
		}
	}
}

// c09OverlappingReaders: the pure readers leave the receiver unchanged for every observer, also one that reads at the
// same time (another goroutine holding the same container): every overlapping call gives the sequential result
func c09OverlappingReaders(c *oracleCtx) {
	c.check("overlapping-readers", true, func() string {
		inner := NewList(1, "x", NewObject("k", 2.5))
		l := NewList()
		o := NewObject()
		for i := 0; i < 120; i++ {
			l.Add(i, inner, "s"+strconv.Itoa(i))
			o.Set("k"+strconv.Itoa(i), i, "n"+strconv.Itoa(i), inner)
		}
		ls, os, lf, lc := l.String(), nativeAny(o), l.FormatString(2), l.Count()
		type reader struct {
			id string
			f  func() bool
		}
		readers := []reader{
			{"List.String", func() bool { return l.String() == ls }}, {"List.FormatString", func() bool { return l.FormatString(2) == lf }},
			{"List.Count/Get", func() bool { return l.Count() == lc && l.Get(lc-1) == "s119" && l.GetList(1) == inner }},
			{"List.Equals", func() bool { return l.Equals(l) }}, {"List.Contains/IndexOf", func() bool { return l.Contains("s119") && l.IndexOf(inner) == 1 }},
			{"List.SubList/Clone", func() bool { return l.SubList(0, lc).Equals(l) && l.Clone().Count() == lc }},
			{"Object.String", func() bool { return len(o.String()) > 0 && o.Count() == 240 }}, {"Object.NativeDict", func() bool { return reflect.DeepEqual(nativeAny(o), os) }},
			{"Object.Equals/Keys", func() bool { return o.Equals(o) && o.Keys().Count() == 240 && o.GetList("n7") == inner }},
			{"inner.String", func() bool { return inner.String() == `[1,"x",{"k":2.5}]` && inner.Count() == 3 }},
		}
		var mu sync.Mutex
		bad := ""
		var wg sync.WaitGroup
		for g := 0; g < 12; g++ {
			wg.Add(1)
			go func(g int) {
				defer wg.Done()
				for it := 0; it < 60; it++ {
					r := readers[(g+it)%len(readers)]
					ok := false
					func() {
						defer func() { recover() }()
						ok = r.f()
					}()
					if !ok {
						mu.Lock()
						bad = r.id
						mu.Unlock()
					}
				}
			}(g)
		}
		wg.Wait()
		if bad != "" {
			return bad + " observes a changed container (or panics) while other readers run on the same container"
		}
		if l.String() != ls || !reflect.DeepEqual(nativeAny(o), os) || inner.Count() != 3 {
			return "the containers are changed after overlapping read-only calls"
		}
		return ""
	})
}

// c09ComparisonOperands: Equals / Contains / IndexOf / KeyOf leave the receiver AND the argument unchanged, whatever the
// outcome of the comparison (all ordered pairs of the small trees, incl. same-size objects with different key sets)
func c09ComparisonOperands(c *oracleCtx) {
	trees := smallTrees()
	for i, ta := range trees {
		ta, i := ta, i
		c.check("operands:"+ta.id, true, func() string {
			for j, tb := range trees {
				a, b := ta.make(), tb.make()
				na, nb := nativeAny(a), nativeAny(b)
				callEquals(a, b)
				holderL, holderO := NewList(1, a), NewObject("x", 1, "a", a)
				catch(func() { holderL.Contains(b); holderL.IndexOf(b); holderO.Contains(b); holderO.KeyOf(b) })
				if !reflect.DeepEqual(na, nativeAny(a)) || !reflect.DeepEqual(nb, nativeAny(b)) {
					return fmt.Sprintf("comparing %s with %s (trees %d, %d) changed an operand", ta.id, tb.id, i, j)
				}
			}
			return ""
		})
	}
}

func c09DeriveTwice(c *oracleCtx) {
	for _, rg := range deriveReceivers() {
		for _, op := range deriveOps() {
			rg, op := rg, op
			if op.f(rg.make()) == nil {
				continue
			}
			c.check("D2:"+rg.id+":"+op.id, true, func() string {
				x := rg.make()
				xs := nativeAny(x)
				r1 := op.f(x)
				if !reflect.DeepEqual(xs, nativeAny(x)) {
					return "the operation changed its receiver"
				}
				r2 := op.f(x)
				if sameTop(r1, r2) || sameTop(r1, x) {
					return "two applications returned the same container (or the receiver itself)"
				}
				norm := func(v any) any {
					// Keys / Values come in map-iteration order: compare them as multisets
					if a, ok := v.([]any); ok && (op.id == "O.Keys" || op.id == "O.Values") {
						ss := make([]string, len(a))
						for i, e := range a {
							ss[i] = fmt.Sprintf("%#v", e)
						}
						sort.Strings(ss)
						return ss
					}
					return v
				}
				s1, s2 := norm(nativeAny(r1)), norm(nativeAny(r2))
				if !reflect.DeepEqual(s1, s2) {
					return fmt.Sprintf("two applications to the same receiver differ: %v vs %v", s1, s2)
				}
				topMutate(r1)
				if !reflect.DeepEqual(xs, nativeAny(x)) {
					return "mutating the result changed the receiver"
				}
				if !reflect.DeepEqual(s2, norm(nativeAny(r2))) {
					return "mutating one result changed another result of the same operation"
				}
				if r3 := op.f(x); !reflect.DeepEqual(s2, norm(nativeAny(r3))) {
					return fmt.Sprintf("after mutating an earlier result the operation yields %v instead of %v", nativeAny(r3), s2)
				}
				// and the other way round: mutating the receiver leaves an earlier result alone
				topMutate(x)
				if !reflect.DeepEqual(s2, norm(nativeAny(r2))) {
					return "mutating the receiver changed an earlier result"
				}
				return ""
			})
		}
	}
}
