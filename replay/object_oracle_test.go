package anytype

// Bounded oracles: C06 (object model), C07 (equality), C08 (clone independence),
// C13 (native conversions), C12 (normalisation), C19 (derived identity).

import (
	"encoding/json"
	"fmt"
	"math"
	"reflect"
	"sort"
	"strconv"
	"strings"
	"time"
)

// ---------------------------------------------------------------------------
// C06: model-based object oracle

type oop struct {
	kind    string
	a, x, y int
}

func (o oop) String() string { return fmt.Sprintf("%s:%d:%d:%d", o.kind, o.a, o.x, o.y) }

var okeys = []string{"", "a", "b", ".a", "#0", "q\"", "é"}

type oworld struct {
	objs   []Object
	models []map[string]any
	nested List
	nobj   Object
}

func (w *oworld) value(i int) (any, bool) {
	switch i {
	case 0:
		return 7, true
	case 1:
		return "s", true
	case 2:
		return w.nested, true
	case 3:
		return nil, true
	case 4:
		return unsupportedT{}, false
	case 5:
		return w.nobj, true
	}
	return 2.5, true
}

func newOWorld(v int) *oworld {
	w := &oworld{nested: NewList(1), nobj: NewObject("k", 1)}
	add := func(o Object, m map[string]any) { w.objs = append(w.objs, o); w.models = append(w.models, m) }
	switch v {
	case 0:
		add(NewObject("a", 1, "b", "x"), map[string]any{"a": 1, "b": "x"})
		add(NewObject(), map[string]any{})
	case 1:
		add(NewObject("", 0, "a", w.nested), map[string]any{"": 0, "a": w.nested})
		add(NewObject("a", 2, "b", w.nested, ".a", nil), map[string]any{"a": 2, "b": w.nested, ".a": nil})
	default:
		add(NewObject("a", 1, "a", 2), map[string]any{"a": 2})
		add(NewObject("b", w.nobj), map[string]any{"b": w.nobj})
	}
	return w
}

func snapO(o Object) map[string]any {
	m := map[string]any{}
	o.ForEach(func(k string, v any) { m[k] = v })
	return m
}

func sameMap(a, b map[string]any) bool {
	if len(a) != len(b) {
		return false
	}
	for k, v := range a {
		w, ok := b[k]
		if !ok || !same(v, w) {
			return false
		}
	}
	return true
}

func showM(m map[string]any) string {
	var ks []string
	for k := range m {
		ks = append(ks, k)
	}
	sort.Strings(ks)
	var ss []string
	for _, k := range ks {
		ss = append(ss, strconv.Quote(k)+":"+show(m[k]))
	}
	return "{" + strings.Join(ss, ",") + "}"
}

func (w *oworld) compare() string {
	for i, o := range w.objs {
		m := w.models[i]
		if got := snapO(o); !sameMap(got, m) {
			return fmt.Sprintf("object #%d is %s, map model says %s", i, showM(got), showM(m))
		}
		if o.Count() != len(m) || o.Empty() != (len(m) == 0) {
			return fmt.Sprintf("object #%d: Count/Empty disagree with the model", i)
		}
		keys, vals, dict := o.Keys(), o.Values(), o.Dict()
		if keys.Count() != len(m) || vals.Count() != len(m) || len(dict) != len(m) {
			return fmt.Sprintf("object #%d: Keys/Values/Dict/Count describe different field sets", i)
		}
		for j := 0; j < keys.Count(); j++ {
			k, ok := keys.Get(j).(string)
			if !ok {
				return "Keys() holds a non-string"
			}
			if _, in := m[k]; !in {
				return fmt.Sprintf("Keys() lists %q which is not a field", k)
			}
		}
		for k, v := range m {
			if !o.KeyExists(k) || !same(dict[k], v) || !same(o.Get(k), v) {
				return fmt.Sprintf("object #%d: key %q: KeyExists/Dict/Get disagree with the model", i, k)
			}
			if !vals.Contains(v) && v == v {
				return fmt.Sprintf("Values() misses %s", show(v))
			}
		}
		for _, k := range okeys {
			if _, in := m[k]; !in {
				if o.KeyExists(k) || o.TypeOf(k) != TypeUndefined || !catch(func() { o.Get(k) }) {
					return fmt.Sprintf("object #%d: absent key %q is visible", i, k)
				}
			}
		}
	}
	return ""
}

func (w *oworld) apply(op oop) string {
	if op.a >= len(w.objs) {
		return ""
	}
	o, m := w.objs[op.a], w.models[op.a]
	var ret any
	switch op.kind {
	case "Set":
		k := okeys[op.x]
		v, ok := w.value(op.y)
		if catch(func() { ret = o.Set(k, v) }) != !ok {
			return fmt.Sprintf("Set(%q,%v): panic mismatch", k, v)
		}
		if ok {
			m[k] = v
			if ret.(Object) != o {
				return "Set did not return the receiver"
			}
		}
	case "Set2":
		// duplicate key inside one call: last pair wins
		k := okeys[op.x]
		v1, _ := w.value(0)
		v2, ok := w.value(op.y)
		if catch(func() { o.Set(k, v1, okeys[1], 3, k, v2) }) != !ok {
			return "Set with three pairs: panic mismatch"
		}
		if ok {
			m[okeys[1]] = 3
			m[k] = v2
		} else {
			// pairs before the rejected one are applied
			m[k] = v1
			m[okeys[1]] = 3
		}
	case "SetOdd":
		if !catch(func() { o.Set("a", 1, "b") }) {
			return "Set with an odd argument count did not panic"
		}
	case "SetBadKey":
		if !catch(func() { o.Set(1, 2) }) {
			return "Set with a non-string key did not panic"
		}
	case "Unset":
		k := okeys[op.x]
		delete(m, k)
		if o.Unset(k) != o {
			return "Unset did not return the receiver"
		}
	case "Clear":
		for k := range m {
			delete(m, k)
		}
		if o.Clear() != o {
			return "Clear did not return the receiver"
		}
	case "Merge":
		if op.x >= len(w.objs) {
			return ""
		}
		want := map[string]any{}
		for k, v := range m {
			want[k] = v
		}
		for k, v := range w.models[op.x] {
			want[k] = v
		}
		r := o.Merge(w.objs[op.x])
		got := snapO(r)
		if len(got) != len(want) {
			return fmt.Sprintf("Merge has %d fields, model %d", len(got), len(want))
		}
		for k, v := range want {
			gv, ok := got[k]
			if !ok {
				return fmt.Sprintf("Merge misses key %q", k)
			}
			// values on the receiver's side are deep clones, the argument's are shared: compare by content
			if !reflect.DeepEqual(native(gv), native(v)) {
				return fmt.Sprintf("Merge: key %q holds %s, model %s", k, show(gv), show(v))
			}
		}
		for _, other := range w.objs {
			if other == r {
				return "Merge returned an existing object"
			}
		}
		r.Set("zz", 1)
		r.Unset("a")
	case "Pluck":
		k1, k2 := okeys[op.x], okeys[op.y]
		_, in1 := m[k1]
		_, in2 := m[k2]
		var r Object
		if catch(func() { r = o.Pluck(k1, k2) }) != !(in1 && in2) {
			return fmt.Sprintf("Pluck(%q,%q): panic mismatch", k1, k2)
		}
		if in1 && in2 {
			want := map[string]any{k1: m[k1], k2: m[k2]}
			if !sameMap(snapO(r), want) {
				return fmt.Sprintf("Pluck gives %s, model %s", showM(snapO(r)), showM(want))
			}
			r.Set(k1, "changed")
			r.Unset(k2)
		}
	case "KeyOf":
		v, _ := w.value(op.x)
		found := false
		for _, mv := range m {
			if same(mv, v) {
				found = true
			}
		}
		var k string
		if catch(func() { k = o.KeyOf(v) }) != !found {
			return "KeyOf: panic mismatch"
		}
		if found && !same(m[k], v) {
			return fmt.Sprintf("KeyOf returned %q whose value differs", k)
		}
		if o.Contains(v) != found {
			return "Contains disagrees with the model"
		}
	case "Getters":
		k := okeys[op.x]
		v, in := m[k]
		typed := 0
		for _, g := range []func(){func() { o.GetObject(k) }, func() { o.GetList(k) }, func() { o.GetString(k) }, func() { o.GetBool(k) }, func() { o.GetInt(k) }, func() { o.GetFloat(k) }} {
			if !catch(g) {
				typed++
			}
		}
		want := 1
		if !in || v == nil {
			want = 0
		}
		if typed != want {
			return fmt.Sprintf("key %q: %d typed getters succeed, expected %d", k, typed, want)
		}
	}
	return w.compare()
}

func oopsFor(w *oworld) []oop {
	var out []oop
	for a := range w.objs {
		for k := range okeys {
			for v := 0; v <= 5; v++ {
				out = append(out, oop{"Set", a, k, v})
			}
			out = append(out, oop{"Unset", a, k, 0}, oop{"Getters", a, k, 0}, oop{"Set2", a, k, 1}, oop{"Set2", a, k, 4})
			for k2 := range okeys {
				if k2 <= 2 {
					out = append(out, oop{"Pluck", a, k, k2})
				}
			}
		}
		out = append(out, oop{"Clear", a, 0, 0}, oop{"SetOdd", a, 0, 0}, oop{"SetBadKey", a, 0, 0})
		for b := range w.objs {
			out = append(out, oop{"Merge", a, b, 0})
		}
		for v := 0; v <= 6; v++ {
			out = append(out, oop{"KeyOf", a, v, 0})
		}
	}
	return out
}

func runOSeq(v int, ops []oop) string {
	w := newOWorld(v)
	if msg := w.compare(); msg != "" {
		return "initial: " + msg
	}
	for i, o := range ops {
		if msg := w.apply(o); msg != "" {
			return fmt.Sprintf("step %d (%s): %s", i+1, o, msg)
		}
	}
	return ""
}

func c06Oracle(c *oracleCtx) {
	rawStrings(c, "object")
	everyStorePath(c)
	typedNativeNils(c)
	removalKeepsChildren(c)
	zeroArgVariadics(c)
	c.rule = "operation sequences on a pool of live objects (3 pools incl. empty key, shared nested containers, duplicate keys), every object compared with a map model after every step (Get/KeyExists/TypeOf/Keys/Values/Dict/Count), exact panics; distinct = distinct sequences"
	if c.filter != nil {
		for id := range c.filter {
			f := strings.Split(id, "|")
			v, _ := strconv.Atoi(f[0][1:])
			var ops []oop
			for _, s := range f[1:] {
				p := strings.Split(s, ":")
				a, _ := strconv.Atoi(p[1])
				x, _ := strconv.Atoi(p[2])
				y, _ := strconv.Atoi(p[3])
				ops = append(ops, oop{p[0], a, x, y})
			}
			c.check(id, true, func() string { return runOSeq(v, ops) })
		}
		return
	}
	nRand, depth := 4000, 4
	if c.thorough {
		nRand, depth = 80000, 6
	}
	c.bound = fmt.Sprintf("all sequences of length <= 2 over 3 pools plus %d seeded random sequences of length <= %d", nRand, depth)
	id := func(v int, ops []oop) string {
		ss := []string{fmt.Sprintf("V%d", v)}
		for _, o := range ops {
			ss = append(ss, o.String())
		}
		return strings.Join(ss, "|")
	}
	for v := 0; v < 3; v++ {
		for _, o1 := range oopsFor(newOWorld(v)) {
			c.check(id(v, []oop{o1}), true, func() string { return runOSeq(v, []oop{o1}) })
			w1 := newOWorld(v)
			if w1.apply(o1) != "" {
				continue
			}
			for _, o2 := range oopsFor(w1) {
				ops := []oop{o1, o2}
				c.check(id(v, ops), true, func() string { return runOSeq(v, ops) })
			}
		}
	}
	for k := 0; k < nRand; k++ {
		v := c.rng.Intn(3)
		w := newOWorld(v)
		var ops []oop
		bad := ""
		for i, d := 0, 3+c.rng.Intn(depth-2); i < d && bad == ""; i++ {
			cand := oopsFor(w)
			o := cand[c.rng.Intn(len(cand))]
			ops = append(ops, o)
			bad = w.apply(o)
		}
		c.check(id(v, ops), true, func() string { return runOSeq(v, ops) })
	}
}

// ---------------------------------------------------------------------------
// C07 / C08 / C13 on a family of small trees

type treeGen struct {
	id   string
	make func() any
}

// strings that are not valid UTF-8 (Latin-1 text, lone bytes, truncated sequences, an encoded surrogate) next to the
// valid strings they print like
var rawStrs = []string{"Ren\xe9e", "Ren\xe8e", "\xff", "\ufffd", "\xe2\x82", "\xc3\xc3", "\xed\xa0\x80", "\ufffd\ufffd"}

// rawStrings: a string value / key is held byte for byte by every entry point and found again by the searches
func rawStrings(c *oracleCtx, what string) {
	for i, s := range rawStrs {
		s := s
		if what != "object" {
			c.check(fmt.Sprintf("raw-string:list:%d", i), true, func() string {
				ls := map[string]List{"NewList": NewList(s, 1), "Add": NewList().Add(s), "Insert": NewList(1).Insert(0, s), "Replace": NewList(1).Replace(0, s),
					"NewListOf": NewListOf(s, 2), "NewListFrom[]string": NewListFrom([]string{s, "x"}), "NewListFrom[]any": NewListFrom([]any{s}), "SetTF": NewList().SetTF("#0", s),
					"Clone": NewList(s).Clone(), "SubList": NewList(s, s).SubList(0, 1), "Concat": NewList(s).Concat(NewList(1)), "nested-native": NewList([]string{s}).GetList(0),
					"MapStrings": NewList("q").MapStrings(func(string) any { return s }), "Sort": NewList(s, s).Sort(), "Reverse": NewList(1, s).Reverse()}
				for name, l := range ls {
					if got, ok := l.Get(0).(string); !ok || got != s || l.GetString(0) != s {
						return fmt.Sprintf("%s: stored %q reads back as %q", name, s, l.Get(0))
					}
					if l.IndexOf(s) != 0 || !l.Contains(s) {
						return fmt.Sprintf("%s: stored %q is not found by IndexOf / Contains", name, s)
					}
					for _, o := range rawStrs {
						if o != s && (l.IndexOf(o) >= 0 || l.Contains(o)) {
							return fmt.Sprintf("%s: %q found in a list that holds %q", name, o, s)
						}
					}
				}
				return ""
			})
		}
		if what != "list" {
			c.check(fmt.Sprintf("raw-string:object:%d", i), true, func() string {
				os := map[string]Object{"NewObject": NewObject("k", s), "Set": NewObject().Set("k", s), "SetTF": NewObject().SetTF(".k", s),
					"From-map-string": NewObjectFrom(map[string]string{"k": s}), "From-map-any": NewObjectFrom(map[string]any{"k": s}), "Clone": NewObject("k", s).Clone(),
					"Merge": NewObject().Merge(NewObject("k", s)), "Pluck": NewObject("k", s, "z", 1).Pluck("k"), "nested-native": NewObject("o", map[string]string{"k": s}).GetObject("o")}
				for name, o := range os {
					if got, ok := o.Get("k").(string); !ok || got != s || o.GetString("k") != s {
						return fmt.Sprintf("%s: stored %q reads back as %q", name, s, o.Get("k"))
					}
				}
				// as a key
				ks := map[string]Object{"NewObject": NewObject(s, 1), "Set": NewObject().Set(s, 1), "From-map": NewObjectFrom(map[string]int{s: 1}), "Clone": NewObject(s, 1).Clone()}
				for name, o := range ks {
					if !o.KeyExists(s) || o.Keys().Count() != 1 || o.Keys().GetString(0) != s {
						return fmt.Sprintf("%s: key %q is not kept byte for byte", name, s)
					}
					for _, other := range rawStrs {
						if other != s && o.KeyExists(other) {
							return fmt.Sprintf("%s: key %q exists in an object whose only key is %q", name, other, s)
						}
					}
				}
				return ""
			})
		}
	}
}

func smallTrees() []treeGen {
	leaves := []leafSpec{{"nil", nil}, {"t", true}, {"i1", 1}, {"f1", 1.0}, {"s", "s"}, {"i2", 2}, {"e", ""}}
	var out []treeGen
	out = append(out, treeGen{"L()", func() any { return NewList() }}, treeGen{"O()", func() any { return NewObject() }})
	// floats one ulp apart and within 1e-12 relative distance (exact equality only)
	for i, pr := range [][2]float64{{100, 100 + 7e-11}, {100 + 7e-11, 100 + 14e-11}, {1, math.Nextafter(1, 2)}, {1e300, math.Nextafter(1e300, 0)}, {5e-324, 1e-323}, {0.1, 0.1 + 1e-17}} {
		pr := pr
		out = append(out,
			treeGen{fmt.Sprintf("L(fa%d)", i), func() any { return NewList(pr[0]) }},
			treeGen{fmt.Sprintf("L(fb%d)", i), func() any { return NewList(pr[1]) }},
			treeGen{fmt.Sprintf("O(a=fa%d)", i), func() any { return NewObject("a", pr[0]) }},
			treeGen{fmt.Sprintf("O(a=fb%d)", i), func() any { return NewObject("a", pr[1]) }})
	}
	// the two float zeros are equal (Go ==)
	out = append(out,
		treeGen{"L(+0)", func() any { return NewList(0.0) }},
		treeGen{"L(-0)", func() any { return NewList(math.Copysign(0, -1)) }},
		treeGen{"O(a=+0)", func() any { return NewObject("a", 0.0) }},
		treeGen{"O(a=-0)", func() any { return NewObject("a", math.Copysign(0, -1)) }},
		treeGen{"L(L(-0))", func() any { return NewList(NewList(math.Copysign(0, -1))) }},
		treeGen{"L(L(+0))", func() any { return NewList(NewList(0.0)) }})
	// one container at two positions of a tree (a DAG) against trees that differ at the later occurrence
	out = append(out,
		treeGen{"L(sh,sh)", func() any { sh := NewList(1, 2); return NewList(sh, sh) }},
		treeGen{"L(L(1,2),L(9,9))", func() any { return NewList(NewList(1, 2), NewList(9, 9)) }},
		treeGen{"L(L(1,2),L(1,2))", func() any { return NewList(NewList(1, 2), NewList(1, 2)) }},
		treeGen{"L(L(9,9),L(1,2))", func() any { return NewList(NewList(9, 9), NewList(1, 2)) }},
		treeGen{"O(p=sh,q=sh)", func() any { sh := NewObject("k", 1); return NewObject("p", sh, "q", sh) }},
		treeGen{"O(p=O(k=1),q=O(k=2))", func() any { return NewObject("p", NewObject("k", 1), "q", NewObject("k", 2)) }},
		treeGen{"O(p=O(k=2),q=O(k=1))", func() any { return NewObject("p", NewObject("k", 2), "q", NewObject("k", 1)) }},
		treeGen{"O(p=O(k=1),q=O(k=1))", func() any { return NewObject("p", NewObject("k", 1), "q", NewObject("k", 1)) }},
		treeGen{"ListOf(L(1),2)", func() any { return NewListOf(NewList(1), 2) }},
		treeGen{"L(L(1),L(2))", func() any { return NewList(NewList(1), NewList(2)) }},
		treeGen{"L(L(2),L(1))", func() any { return NewList(NewList(2), NewList(1)) }})
	// empty containers as children (a copy must not share them either)
	out = append(out,
		treeGen{"L(L())", func() any { return NewList(NewList()) }},
		treeGen{"L(O())", func() any { return NewList(NewObject()) }},
		treeGen{"O(a=L())", func() any { return NewObject("a", NewList()) }},
		treeGen{"O(a=O())", func() any { return NewObject("a", NewObject()) }},
		treeGen{"O(a=L(),b=O())", func() any { return NewObject("a", NewList(), "b", NewObject()) }},
		treeGen{"L(L(),O(),i1)", func() any { return NewList(NewList(), NewObject(), 1) }},
		treeGen{"O(a=O(a=L()))", func() any { return NewObject("a", NewObject("a", NewList())) }},
		treeGen{"L(L(L()))", func() any { return NewList(NewList(NewList())) }})
	// strings are byte sequences: ill-formed UTF-8 that prints alike (every bad byte shows as U+FFFD) is still different
	for i, s := range rawStrs {
		s, id := s, fmt.Sprintf("raw%d", i)
		out = append(out,
			treeGen{"L(" + id + ")", func() any { return NewList(s) }},
			treeGen{"O(a=" + id + ")", func() any { return NewObject("a", s) }},
			treeGen{"L(L(" + id + "))", func() any { return NewList(NewList(s)) }},
			treeGen{"O(" + id + "=i1)", func() any { return NewObject(s, 1) }})
	}
	for _, a := range leaves {
		a := a
		out = append(out,
			treeGen{"L(" + a.id + ")", func() any { return NewList(a.val) }},
			treeGen{"O(a=" + a.id + ")", func() any { return NewObject("a", a.val) }},
			treeGen{"O(b=" + a.id + ")", func() any { return NewObject("b", a.val) }},
			treeGen{"L(L(" + a.id + "))", func() any { return NewList(NewList(a.val)) }},
			treeGen{"L(O(a=" + a.id + "))", func() any { return NewList(NewObject("a", a.val)) }},
			treeGen{"O(a=L(" + a.id + "))", func() any { return NewObject("a", NewList(a.val)) }},
			treeGen{"O(a=O(a=" + a.id + "))", func() any { return NewObject("a", NewObject("a", a.val)) }})
		for _, b := range leaves[:5] {
			b := b
			out = append(out,
				treeGen{"L(" + a.id + "," + b.id + ")", func() any { return NewList(a.val, b.val) }},
				treeGen{"O(a=" + a.id + ",b=" + b.id + ")", func() any { return NewObject("a", a.val, "b", b.val) }},
				treeGen{"O(b=" + b.id + ",a=" + a.id + ")", func() any { return NewObject("b", b.val, "a", a.val) }},
				treeGen{"L(O(a=" + a.id + "),L(" + b.id + "))", func() any { return NewList(NewObject("a", a.val), NewList(b.val)) }})
		}
	}
	return out
}

// refEq: typed structural equality, the property's definition.
func refEq(a, b any) bool {
	switch x := a.(type) {
	case List:
		y, ok := b.(List)
		if !ok || x.Count() != y.Count() {
			return false
		}
		for i := 0; i < x.Count(); i++ {
			if !refEq(x.Get(i), y.Get(i)) {
				return false
			}
		}
		return true
	case Object:
		y, ok := b.(Object)
		if !ok || x.Count() != y.Count() {
			return false
		}
		res := true
		x.ForEach(func(k string, v any) {
			if !y.KeyExists(k) || !refEq(v, y.Get(k)) {
				res = false
			}
		})
		return res
	case nil:
		return b == nil
	case int:
		y, ok := b.(int)
		return ok && x == y
	case float64:
		y, ok := b.(float64)
		return ok && x == y
	case string:
		y, ok := b.(string)
		return ok && x == y
	case bool:
		y, ok := b.(bool)
		return ok && x == y
	}
	return false
}

func callEquals(a, b any) (res bool, panicked bool) {
	panicked = catch(func() {
		switch x := a.(type) {
		case List:
			if y, ok := b.(List); ok {
				res = x.Equals(y)
			} else {
				res = false
			}
		case Object:
			if y, ok := b.(Object); ok {
				res = x.Equals(y)
			} else {
				res = false
			}
		}
	})
	return
}

func c07Oracle(c *oracleCtx) {
	trees := smallTrees()
	c.rule = "all ordered pairs of small trees (lists/objects of depth <= 2 over 7 leaves, permuted key order, one-place differences): Equals == typed structural equality, symmetric, no panic, operands unchanged; transitivity on sampled triples"
	c.bound = fmt.Sprintf("%d trees: all %d ordered pairs, %d triples", len(trees), len(trees)*len(trees), 20000)
	for i, ta := range trees {
		for j, tb := range trees {
			ta, tb := ta, tb
			c.check(ta.id+"~"+tb.id, i != j, func() string {
				a, b := ta.make(), tb.make()
				_, al := a.(List)
				_, bl := b.(List)
				if al != bl {
					return ""
				}
				sa, sb := serial(a), serial(b)
				got, p := callEquals(a, b)
				if p {
					return "Equals panicked"
				}
				if want := refEq(a, b); got != want {
					return fmt.Sprintf("Equals = %v, typed structural equality = %v", got, want)
				}
				back, _ := callEquals(b, a)
				if back != got {
					return "Equals is not symmetric"
				}
				if !equalsT(a, ta.make()) || !equalsT(b, tb.make()) || len(sa) != len(serial(a)) || len(sb) != len(serial(b)) {
					return "operand modified"
				}
				return ""
			})
		}
	}
	for n := 0; n < 20000; n++ {
		i, j, k := c.rng.Intn(len(trees)), c.rng.Intn(len(trees)), c.rng.Intn(len(trees))
		c.check(fmt.Sprintf("T:%d:%d:%d", i, j, k), true, func() string {
			a, b, d := trees[i].make(), trees[j].make(), trees[k].make()
			ab, _ := callEquals(a, b)
			bd, _ := callEquals(b, d)
			ad, _ := callEquals(a, d)
			if ab && bd && !ad {
				return "Equals is not transitive"
			}
			if r, _ := callEquals(a, a); !r {
				return "Equals is not reflexive"
			}
			return ""
		})
	}
}

// containers reachable from a tree
func reach(v any, out map[any]bool) {
	switch x := v.(type) {
	case List:
		out[x] = true
		for i := 0; i < x.Count(); i++ {
			reach(x.Get(i), out)
		}
	case Object:
		out[x] = true
		x.ForEach(func(_ string, e any) { reach(e, out) })
	}
}

func mutateAll(v any) {
	switch x := v.(type) {
	case List:
		for i := 0; i < x.Count(); i++ {
			mutateAll(x.Get(i))
		}
		x.Add("mut").Insert(0, 99)
		if x.Count() > 2 {
			x.Delete(1)
		}
	case Object:
		x.ForEach(func(_ string, e any) { mutateAll(e) })
		x.Set("mut", 1).Unset("a")
	}
}

func cloneOf(v any) any {
	if l, ok := v.(List); ok {
		return l.Clone()
	}
	return v.(Object).Clone()
}

func c08Oracle(c *oracleCtx) {
	trees := smallTrees()
	c.rule = "small trees (depth <= 2, mixed kinds at every level): Clone Equals the original, shares no reachable container, and mutating every container of one side (methods and tree-form writes) leaves the other side's serialisation unchanged"
	c.bound = fmt.Sprintf("%d trees x 2 directions", len(trees))
	extra := []treeGen{
		{"L(s,O(a=i1),L(i1))", func() any { return NewList("header", NewObject("a", 1), NewList(1)) }},
		{"L(O(a=i1),nil)", func() any { return NewList(NewObject("a", 1), nil) }},
		{"SubList", func() any { return NewList(NewObject("a", 1), NewObject("b", 2), 3).SubList(0, 2) }},
		{"Concat", func() any { return NewObject("m", NewList(NewList(1)).Concat(NewList(NewList(2)))) }},
		{"NewListOf", func() any { return NewListOf(NewObject("a", 1), 2) }},
		{"deep", func() any { return NewObject("a", NewList(NewObject("b", NewList(NewObject("c", 1))))) }},
		// derived containers as elements / fields (a clone holds copies of them, never the originals), strings that
		// are not valid UTF-8 (copied byte for byte)
		{"derived-in-list", func() any { return NewList(newDList(1, NewObject("a", 1)), newDObject("k", NewList(2)), 3) }},
		{"derived-in-object", func() any { return NewObject("dl", newDList(1), "do", newDObject("k", 1), "l", NewList(newDDList(5))) }},
		{"derived-nested", func() any { return NewObject("x", NewList(NewObject("y", newDList(NewList(1))))) }},
		{"listof-derived", func() any { return NewListOf(newDObject("k", 1), 3) }},
		{"bad-utf8", func() any { return NewList("a\xffb", "\xc3", "\xed\xa0\x80", NewObject("k", "\xf0\x9f\x98"), "ok") }},
		{"bad-utf8-obj", func() any { return NewObject("s", "\x80", "l", NewList("\xfe\xff")) }},
		// the same shapes reached through different operation histories (a cached summary of the content that one
		// mutator forgets to refresh shows only on such a history)
		{"hist:insert-mid", func() any { return NewList(1, "x", 2.5).Insert(1, NewList(7)) }},
		{"hist:insert-mid-obj", func() any { return NewList(1, 2).Insert(1, NewObject("a", NewList(1))) }},
		{"hist:insert-front", func() any { return NewList(1, 2).Insert(0, NewObject("a", 1)) }},
		{"hist:insert-end", func() any { return NewList(1, 2).Insert(2, NewList(1)) }},
		{"hist:replace", func() any { return NewList(1, 2, 3).Replace(1, NewList(NewObject("a", 1))) }},
		{"hist:settf", func() any { return NewList(1, 2).SetTF("#1", NewObject("a", 1)).SetTF("#3#0", 5) }},
		{"hist:delete-then-add", func() any { return NewList(NewList(1), 2, 3).Delete(0).Add(NewObject("a", NewList())) }},
		{"hist:clear-add", func() any { return NewList(1, 2).Clear().Add(NewList(1), NewObject()) }},
		{"hist:pop-insert", func() any { l := NewList(1, 2, 3); l.Pop(); return l.Insert(1, NewList(NewList())) }},
		{"hist:from-slice-insert", func() any { return NewListFrom([]int{1, 2, 3}).Insert(2, NewObject("k", NewList(1))) }},
		{"hist:listof-replace", func() any { return NewListOf(0, 3).Replace(0, NewList(1)) }},
		{"hist:sort-insert", func() any { return NewList(3, 1, 2).Sort().Insert(1, NewList(9)) }},
		{"hist:reverse-insert", func() any { return NewList(1, 2, 3).Reverse().Insert(2, NewObject("a", 1)) }},
		{"hist:nested-in-obj", func() any {
			return NewObject("l", NewList(1, 2).Insert(1, NewList(7)), "e", NewList(), "o", NewObject())
		}},
		{"hist:obj-set-over", func() any { return NewObject("a", 1, "b", 2).Set("a", NewList(1)).Set("b", NewObject()) }},
		{"hist:obj-unset-set", func() any { return NewObject("a", NewList(1)).Unset("a").Set("a", NewObject("x", NewList())) }},
		{"hist:obj-settf", func() any { return NewObject("a", 1).SetTF(".a.b#1", NewList()).SetTF(".c", NewObject()) }},
		{"hist:merge", func() any { return NewObject("a", NewList(1)).Merge(NewObject("b", NewObject(), "c", NewList())) }},
		{"hist:parsed", func() any { o, _ := ParseObject(`{"a":[],"b":{},"c":[[],{}],"d":[1,[2]]}`); return o }},
	}
	// chains far deeper than the small trees: object in object, list in list, alternating; every level of the clone is
	// a copy, whatever the depth (round O/P, C08-P: a recursion guard that attaches level 64 by reference)
	for _, depth := range []int{31, 32, 33, 63, 64, 65, 100, 127, 128, 129, 255, 256, 257, 1000} {
		for _, pat := range []string{"O", "L", "OL", "LO", "OOL"} {
			depth, pat := depth, pat
			extra = append(extra, treeGen{fmt.Sprintf("chain:%s:%d", pat, depth), func() any {
				var cur any = NewObject("leaf", NewList(1))
				for lvl := depth - 1; lvl >= 0; lvl-- {
					if pat[lvl%len(pat)] == 'O' {
						cur = NewObject("a", cur, "n", lvl)
					} else {
						cur = NewList(cur, lvl)
					}
				}
				return cur
			}})
		}
	}
	c.bound = fmt.Sprintf("%d trees x 2 directions (70 of them chains of depth 31..1000)", len(trees)+len(extra))
	for _, tg := range append(trees, extra...) {
		tg := tg
		for dir := 0; dir < 2; dir++ {
			dir := dir
			c.check(fmt.Sprintf("%s/%d", tg.id, dir), true, func() string {
				orig := tg.make()
				cl := cloneOf(orig)
				if !equalsT(orig, cl) {
					return "clone does not Equal the original"
				}
				ro, rc := map[any]bool{}, map[any]bool{}
				reach(orig, ro)
				reach(cl, rc)
				for k := range rc {
					if ro[k] {
						return "clone shares a container with the original"
					}
				}
				a, b := orig, cl
				if dir == 1 {
					a, b = cl, orig
				}
				before := native(b)
				mutateAll(a)
				if l, ok := a.(List); ok && l.Count() > 0 {
					catch(func() { l.SetTF("#0.zz", 1) })
				}
				if o, ok := a.(Object); ok {
					catch(func() { o.SetTF(".a#0.q", 1) })
				}
				if !reflect.DeepEqual(before, native(b)) {
					return "mutating one side changed the other"
				}
				return ""
			})
		}
	}
}

func nativeOf(v any) any {
	if l, ok := v.(List); ok {
		return l.NativeSlice()
	}
	return v.(Object).NativeDict()
}

func hasContainer(v any) bool {
	switch x := v.(type) {
	case List, Object:
		return true
	case []any:
		for _, e := range x {
			if hasContainer(e) {
				return true
			}
		}
	case map[string]any:
		for _, e := range x {
			if hasContainer(e) {
				return true
			}
		}
	}
	return false
}

// Dict / Slice / Values hand out exactly what Get returns, also for stored derived containers whose ego
// pointer was re-targeted after they were stored (the README's inner-first two-level construction) and for a
// stored embedded base.
func c13ExportsAreGet(c *oracleCtx) {
	c.check("exports:non-finite-floats", true, func() string {
		// every float64 is a float: infinities and NaN are exported as they are stored
		inf, ninf, nan := math.Inf(1), math.Inf(-1), math.NaN()
		l := NewList(inf, ninf, nan, NewObject("f", inf, "n", nan), NewList(ninf))
		o := NewObject("p", inf, "m", ninf, "nan", nan, "l", NewList(inf, nan))
		isF := func(v any, want float64) bool {
			f, ok := v.(float64)
			return ok && (f == want || (math.IsNaN(want) && math.IsNaN(f)))
		}
		n := l.NativeSlice()
		if !isF(n[0], inf) || !isF(n[1], ninf) || !isF(n[2], nan) || !isF(n[3].(map[string]any)["f"], inf) || !isF(n[3].(map[string]any)["n"], nan) || !isF(n[4].([]any)[0], ninf) {
			return fmt.Sprintf("NativeSlice does not hold the stored non-finite floats: %v", n)
		}
		d := o.NativeDict()
		if !isF(d["p"], inf) || !isF(d["m"], ninf) || !isF(d["nan"], nan) || !isF(d["l"].([]any)[0], inf) || !isF(d["l"].([]any)[1], nan) {
			return fmt.Sprintf("NativeDict does not hold the stored non-finite floats: %v", d)
		}
		if s, fs := l.Slice(), l.FloatSlice(); !isF(s[0], inf) || !isF(s[2], nan) || len(fs) != 3 || !isF(fs[1], ninf) || !isF(fs[2], nan) || !isF(o.Dict()["m"], ninf) {
			return "Slice / FloatSlice / Dict do not hold the stored non-finite floats"
		}
		back := NewListFrom(n)
		if back.Count() != 5 || !isF(back.Get(0), inf) || !isF(back.Get(2), nan) || back.TypeOf(2) != TypeFloat || !isF(back.GetObject(3).Get("n"), nan) {
			return "NewListFrom(NativeSlice()) does not reproduce the non-finite floats"
		}
		return ""
	})
	c.check("exports:retargeted", true, func() string {
		inner := newDObject("k", 1)
		o := NewObject("pet", inner, "n", 1)
		l := NewList(inner, 2)
		outer := &ddObject{dObject: inner, extra: 7}
		outer.Init(outer) // the stored value's ego is now the outer value
		il := newDList(1)
		o.Set("lst", il)
		l.Add(il)
		ol := &ddList{dList: il, extra: 7}
		ol.Init(ol)
		for _, k := range []string{"pet", "lst", "n"} {
			if !same(o.Dict()[k], o.Get(k)) {
				return fmt.Sprintf("Dict()[%q] is %T, Get returns %T", k, o.Dict()[k], o.Get(k))
			}
		}
		for i := 0; i < l.Count(); i++ {
			if !same(l.Slice()[i], l.Get(i)) {
				return fmt.Sprintf("Slice()[%d] is %T, Get returns %T", i, l.Slice()[i], l.Get(i))
			}
		}
		vals := o.Values()
		for i := 0; i < vals.Count(); i++ {
			if _, isObj := vals.Get(i).(Object); isObj && !same(vals.Get(i), o.Get("pet")) {
				return "Values() holds a different object than Get"
			}
		}
		seen := map[string]any{}
		o.ForEach(func(k string, v any) { seen[k] = v })
		for k, v := range seen {
			if !same(v, o.Get(k)) || !same(v, o.Dict()[k]) {
				return "ForEach, Get and Dict disagree on the value of " + k
			}
		}
		return ""
	})
	c.check("exports:embedded-base", true, func() string {
		d := newDObject("k", 1)
		o := NewObject("base", d.Object) // the embedded base is stored, not the derived value
		dl := newDList(5)
		l := NewList(dl.List)
		if !same(o.Dict()["base"], o.Get("base")) {
			return fmt.Sprintf("Dict()[base] is %T, Get returns %T", o.Dict()["base"], o.Get("base"))
		}
		if !same(l.Slice()[0], l.Get(0)) {
			return fmt.Sprintf("Slice()[0] is %T, Get returns %T", l.Slice()[0], l.Get(0))
		}
		return ""
	})
}

// keys are byte strings: a native map with keys that are not valid UTF-8 comes back unchanged
func c13RawKeys(c *oracleCtx) {
	c.check("native:raw-keys", true, func() string {
		m := map[string]any{"\xff": 1, "\xfe": 2, "a\x80b": map[string]any{"\xc3": []any{1}}, "ok": "v", "": 0, "\ufffd": 3}
		o := NewObjectFrom(m)
		if o.Count() != len(m) {
			return fmt.Sprintf("NewObjectFrom keeps %d of %d fields (distinct keys collapsed)", o.Count(), len(m))
		}
		if !reflect.DeepEqual(o.NativeDict(), m) {
			return "NewObjectFrom(m).NativeDict() does not reproduce m for keys that are not valid UTF-8"
		}
		for k := range m {
			if _, ok := o.Dict()[k]; !ok || !o.KeyExists(k) {
				return fmt.Sprintf("key %q is missing from Dict() / KeyExists", k)
			}
		}
		return ""
	})
}

// c13TypedNativeNils: a nil entry of a natively typed container slice / map ([]Object, []List, map[string]Object,
// map[string]List) is the nil kind in every export, exactly as a nil inside []any / map[string]any (round O/P, C13-P)
func c13TypedNativeNils(c *oracleCtx) {
	typedNativeNils(c)
	c.check("native:typed-nil-entries", true, func() string {
		var nilO Object
		var nilL List
		bad := ""
		if catch(func() {
			lists := map[string]List{
				"[]Object":     NewListFrom([]Object{nilO, NewObject("a", 1), nilO}),
				"[]List":       NewListFrom([]List{nilL, NewList("a", 1), nilL}),
				"[]any":        NewListFrom([]any{nil, NewObject("a", 1), nil}),
				"Add([]List)":  NewList([]List{nil, NewList("a", 1), nil}).GetList(0),
				"Set([]Object": NewObject("k", []Object{nil, NewObject("a", 1), nil}).GetList("k"),
			}
			for name, l := range lists {
				want := []any{nil, nativeOf(l.Get(1)), nil}
				ns, sl := l.NativeSlice(), l.Slice()
				if !reflect.DeepEqual(ns, want) || hasContainer(ns) {
					bad = fmt.Sprintf("NewListFrom(%s with nil entries).NativeSlice() = %v, want %v", name, ns, want)
				}
				if len(sl) != 3 || sl[0] != nil || sl[2] != nil || !same(sl[1], l.Get(1)) || l.Get(0) != nil {
					bad = fmt.Sprintf("NewListFrom(%s with nil entries).Slice() does not hold what Get returns", name)
				}
			}
			objs := map[string]Object{
				"map[string]Object":      NewObjectFrom(map[string]Object{"n": nilO, "o": NewObject("a", 1)}),
				"map[string]List":        NewObjectFrom(map[string]List{"n": nilL, "o": NewList("a", 1)}),
				"map[string]any":         NewObjectFrom(map[string]any{"n": nil, "o": NewList("a", 1)}),
				"Add(map[string]Object)": NewList(map[string]Object{"n": nil, "o": NewObject("a", 1)}).GetObject(0),
				"Set(map[string]List)":   NewObject("k", map[string]List{"n": nil, "o": NewList("a", 1)}).GetObject("k"),
			}
			for name, o := range objs {
				want := map[string]any{"n": nil, "o": nativeOf(o.Get("o"))}
				nd, d := o.NativeDict(), o.Dict()
				if !reflect.DeepEqual(nd, want) || hasContainer(nd) {
					bad = fmt.Sprintf("NewObjectFrom(%s with a nil entry).NativeDict() = %v, want %v", name, nd, want)
				}
				if v, ok := d["n"]; len(d) != 2 || !ok || v != nil || !same(d["o"], o.Get("o")) || o.Get("n") != nil {
					bad = fmt.Sprintf("NewObjectFrom(%s with a nil entry).Dict() does not hold what Get returns", name)
				}
			}
			// one level further down
			deep := NewListFrom([]any{[]Object{nilO}, map[string]List{"n": nilL}})
			if !reflect.DeepEqual(deep.NativeSlice(), []any{[]any{nil}, map[string]any{"n": nil}}) {
				bad = "a nil entry of a typed native nested inside []any is not exported as nil"
			}
		}) {
			return "an export panics on a container built from a typed native slice / map with a nil entry"
		}
		return bad
	})
}

func c13Oracle(c *oracleCtx) {
	c09DeriveTwice(c) // every export (Slice, Dict, Native*, Keys, Values ...) taken twice is independent: also of empties
	c13ExportsAreGet(c)
	c13RawKeys(c)
	c13TypedNativeNils(c)
	trees := smallTrees()
	c.rule = "small trees and native trees: Native* contain no container and are deep-equal to the content; NewXFrom(native).Native*() reproduces the input; Dict/Slice are one-level snapshots; mutating exports/sources never changes the container"
	c.bound = fmt.Sprintf("%d container trees + 12 native trees + 10 typed natives with nil entries", len(trees))
	for _, tg := range trees {
		tg := tg
		c.check("native:"+tg.id, true, func() string {
			t := tg.make()
			n := nativeOf(t)
			if hasContainer(n) {
				return "Native* result contains an anytype container"
			}
			var back any
			if _, ok := t.(List); ok {
				back = NewListFrom(n)
			} else {
				back = NewObjectFrom(n)
			}
			if !equalsT(t, back) || !kindsEqual(t, back) {
				return "NewXFrom(Native*()) does not reproduce the container"
			}
			before := serial(t)
			switch x := n.(type) {
			case []any:
				for i := range x {
					x[i] = "clobber"
				}
			case map[string]any:
				for k := range x {
					x[k] = "clobber"
				}
				x["new"] = 1
			}
			if l, ok := t.(List); ok {
				s := l.Slice()
				for i := range s {
					if !same(s[i], l.Get(i)) {
						return "Slice() differs from Get"
					}
					s[i] = "clobber"
				}
			} else {
				o := t.(Object)
				d := o.Dict()
				for k, v := range d {
					if !same(v, o.Get(k)) {
						return "Dict() differs from Get"
					}
					d[k] = "clobber"
				}
				d["new"] = 1
			}
			if !equalsT(t, tg.make()) || len(before) != len(serial(t)) {
				return "modifying an export changed the container"
			}
			return ""
		})
	}
	// derived (user) containers nested inside plain ones are converted like any other container
	c.check("native:derived", true, func() string {
		do := newDObject("k", 1, "l", NewList(2))
		dl := newDList("x", NewObject("y", nil))
		root := NewObject("o", do, "l", dl, "n", NewList(do, dl))
		n := root.NativeDict()
		if hasContainer(n) {
			return "NativeDict of a tree with nested derived containers still contains an anytype container"
		}
		want := map[string]any{"o": map[string]any{"k": 1, "l": []any{2}}, "l": []any{"x", map[string]any{"y": nil}},
			"n": []any{map[string]any{"k": 1, "l": []any{2}}, []any{"x", map[string]any{"y": nil}}}}
		if !reflect.DeepEqual(n, want) {
			return fmt.Sprintf("NativeDict = %#v, want %#v", n, want)
		}
		if s := NewList(do).NativeSlice(); hasContainer(s) {
			return "NativeSlice of a list holding a derived object contains a container"
		}
		return ""
	})
	c.check("native:empties", true, func() string {
		// exports of empty containers are independent of each other
		a := NewObject("e", NewObject()).NativeDict()
		a["e"].(map[string]any)["stray"] = 1
		b := NewObject("e", NewObject()).NativeDict()
		if len(b["e"].(map[string]any)) != 0 {
			return "modifying one native export changed a later export of another empty object"
		}
		s := NewList(NewList()).NativeSlice()
		_ = append(s[0].([]any), 1)
		if len(NewList(NewList()).NativeSlice()[0].([]any)) != 0 {
			return "exports of empty lists share storage"
		}
		return ""
	})
	natives := []any{
		[]any{}, []any{1, "a", nil, true, 2.5}, []any{[]any{1, []any{2}}, map[string]any{"k": []any{}}},
		map[string]any{}, map[string]any{"a": 1, "": nil, "n": map[string]any{"l": []any{1.5, "x"}}},
		[]int{3, 1, 2}, []string{"b", ""}, []float64{1, 2.5}, []bool{true, false},
		map[string]int{"a": 1}, map[string]string{"k": "v"}, map[string]float64{"f": 1},
	}
	for i, n := range natives {
		i, n := i, n
		c.check(fmt.Sprintf("from:%d", i), true, func() string {
			var got, want any
			rv := reflect.ValueOf(n)
			if rv.Kind() == reflect.Slice {
				l := NewListFrom(n)
				got = l.NativeSlice()
				w := make([]any, rv.Len())
				for j := range w {
					w[j] = normNative(rv.Index(j).Interface())
				}
				want = w
				if rv.Len() > 0 {
					rv.Index(0).Set(rv.Index(rv.Len() - 1))
					if !reflect.DeepEqual(l.NativeSlice(), w) {
						return "modifying the source slice changed the list"
					}
				}
			} else {
				o := NewObjectFrom(n)
				got = o.NativeDict()
				w := map[string]any{}
				for _, k := range rv.MapKeys() {
					w[k.String()] = normNative(rv.MapIndex(k).Interface())
				}
				want = w
			}
			if !reflect.DeepEqual(got, want) {
				return fmt.Sprintf("NewXFrom(n).Native*() = %#v, want %#v", got, want)
			}
			return ""
		})
	}
}

func normNative(v any) any {
	switch x := v.(type) {
	case []any:
		out := make([]any, len(x))
		for i := range x {
			out[i] = normNative(x[i])
		}
		return out
	case map[string]any:
		out := map[string]any{}
		for k, e := range x {
			out[k] = normNative(e)
		}
		return out
	}
	return v
}

// ---------------------------------------------------------------------------
// C12

// typedNativeNils: nil entries of natively typed slices / maps become the nil kind like everywhere else, and the
// resulting container is an ordinary one for every observer
func typedNativeNils(c *oracleCtx) {
	c.check("typed-native-nil-entries", true, func() string {
		// nil entries of natively typed slices / maps become the nil kind, like everywhere else
		var nilO Object
		var nilL List
		lo, ll := NewListFrom([]Object{nilO, NewObject()}), NewListFrom([]List{nilL, NewList()})
		oo, ol := NewObjectFrom(map[string]Object{"n": nilO, "o": NewObject()}), NewObjectFrom(map[string]List{"n": nilL, "l": NewList()})
		if lo.TypeOf(0) != TypeNil || ll.TypeOf(0) != TypeNil || lo.Get(0) != nil || ll.Get(0) != nil || lo.TypeOf(1) != TypeObject || ll.TypeOf(1) != TypeList {
			return "a nil entry of a []Object / []List is not stored as the nil kind"
		}
		if oo.TypeOf("n") != TypeNil || ol.TypeOf("n") != TypeNil || oo.Get("n") != nil || ol.Get("n") != nil || oo.TypeOf("o") != TypeObject || ol.TypeOf("l") != TypeList {
			return "a nil entry of a map[string]Object / map[string]List is not stored as the nil kind"
		}
		for _, c := range []any{lo, ll, oo, ol, NewList(map[string]Object{"x": nilO}), NewObject("k", []List{nilL})} {
			if catch(func() { serial(c); cloneOf(c) }) {
				return "a container built from a typed native with a nil entry cannot be serialised / cloned"
			}
		}
		return ""
	})
	c.check("typed-native-nil-entries:observers", true, func() string {
		var nilO Object
		var nilL List
		objs := map[string]Object{"From(map[string]Object)": NewObjectFrom(map[string]Object{"n": nilO, "o": NewObject("a", 1)}), "From(map[string]List)": NewObjectFrom(map[string]List{"n": nilL, "o": NewList(1)}),
			"Set(map[string]List)": NewObject("m", map[string]List{"n": nil, "o": NewList()}).GetObject("m"), "Add(map[string]Object)": NewList(map[string]Object{"n": nil, "o": NewObject()}).GetObject(0)}
		for name, o := range objs {
			bad := ""
			if catch(func() {
				if o.Count() != 2 || !o.KeyExists("n") || o.TypeOf("n") != TypeNil || o.Get("n") != nil || o.Keys().Count() != 2 || o.Values().Count() != 2 || len(o.Dict()) != 2 || o.Dict()["n"] != nil {
					bad = "Count / KeyExists / TypeOf / Get / Keys / Values / Dict disagree about the nil field"
				}
				if !o.Contains(nil) || o.KeyOf(nil) != "n" || o.Pluck("n").TypeOf("n") != TypeNil || NewObject().Merge(o).TypeOf("n") != TypeNil || !o.Equals(o.Clone()) {
					bad = "Contains / KeyOf / Pluck / Merge / Clone mistreat the nil field"
				}
				var v any
				if json.Unmarshal([]byte(o.String()), &v) != nil || v.(map[string]any)["n"] != nil {
					bad = "String() does not print the nil field as null"
				}
			}) {
				return name + ": an operation panics on an object built from a typed native map with a nil entry"
			}
			if bad != "" {
				return name + ": " + bad
			}
		}
		lists := map[string]List{"From([]Object)": NewListFrom([]Object{nilO, NewObject()}), "From([]List)": NewListFrom([]List{nilL, NewList()}), "Add([]List)": NewList([]List{nil, NewList()}).GetList(0)}
		for name, l := range lists {
			bad := ""
			if catch(func() {
				if l.Count() != 2 || l.TypeOf(0) != TypeNil || l.Get(0) != nil || l.Slice()[0] != nil || !l.Contains(nil) || l.IndexOf(nil) != 0 || !l.Equals(l.Clone()) || l.String()[:5] != "[null" {
					bad = "observers disagree about the nil element"
				}
			}) {
				return name + ": an operation panics on a list built from a typed native slice with a nil entry"
			}
			if bad != "" {
				return name + ": " + bad
			}
		}
		return ""
	})
}

// removalKeepsChildren: removing or overwriting a container-valued element / field (Clear, Unset, Pop, Delete, Replace,
// overwriting Set) only drops the reference: the child container, its own children and every other holder are untouched
func removalKeepsChildren(c *oracleCtx) {
	type rm struct {
		id string
		f  func(l List, o Object)
	}
	ops := []rm{
		{"Object.Clear", func(l List, o Object) { o.Clear() }}, {"Object.Unset", func(l List, o Object) { o.Unset("l", "o") }}, {"Object.Set-over", func(l List, o Object) { o.Set("l", 0, "o", nil) }},
		{"Object.UnsetTF", func(l List, o Object) { o.UnsetTF(".l").UnsetTF(".o") }}, {"Object.SetTF-over", func(l List, o Object) { o.SetTF(".l", 1).SetTF(".o", "x") }},
		{"List.Clear", func(l List, o Object) { l.Clear() }}, {"List.Pop", func(l List, o Object) { l.Pop(); l.Pop() }}, {"List.Delete", func(l List, o Object) { l.Delete(0, 1) }},
		{"List.Delete1", func(l List, o Object) { l.Delete(1).Delete(0) }}, {"List.Replace", func(l List, o Object) { l.Replace(0, 0).Replace(1, "x") }}, {"List.UnsetTF", func(l List, o Object) { l.UnsetTF("#1").UnsetTF("#0") }},
		{"List.SetTF-over", func(l List, o Object) { l.SetTF("#0", 1).SetTF("#1", 2) }},
	}
	for _, op := range ops {
		op := op
		c.check("removal-keeps-children:"+op.id, true, func() string {
			grand := NewList(3, NewObject("deep", true))
			cl, co := NewList(1, 2, grand), NewObject("k", grand, "s", "v")
			l, o := NewList(cl, co), NewObject("l", cl, "o", co)
			otherL, otherO := NewList(co, cl), NewObject("same", cl, "too", co)
			before := []string{cl.String(), co.String(), grand.String(), otherL.String(), otherO.String()}
			op.f(l, o)
			after := []string{cl.String(), co.String(), grand.String(), otherL.String(), otherO.String()}
			for i := range before {
				if before[i] != after[i] && !(i == 1 || i >= 3) { // objects print in map order: compare those by Equals below
					return fmt.Sprintf("a container that was only dropped from its holder changed from %s to %s", before[i], after[i])
				}
			}
			if cl.Count() != 3 || cl.GetList(2) != grand || co.Count() != 2 || co.GetList("k") != grand || grand.Count() != 2 || grand.GetObject(1).Count() != 1 ||
				otherL.GetObject(0) != co || otherL.GetList(1) != cl || otherO.GetList("same") != cl || otherO.GetObject("too") != co {
				return "a dropped child container (or a container below it) was modified, or another holder lost it"
			}
			return ""
		})
	}
}

// nanIsFloat: NaN is a float64 like any other: stored as the float kind by every entry point
func nanIsFloat(c *oracleCtx) {
	c.check("nan-is-a-float", true, func() string {
		nan := math.NaN()
		isNaN := func(v any) bool { f, ok := v.(float64); return ok && math.IsNaN(f) }
		ls := map[string]List{"NewList": NewList(nan), "Add": NewList().Add(nan), "Insert": NewList(1.5).Insert(0, nan).Delete(1), "Replace": NewList(1).Replace(0, nan), "NewListOf": NewListOf(nan, 1),
			"NewListFrom[]float64": NewListFrom([]float64{nan}), "NewListFrom[]any": NewListFrom([]any{nan}), "float32": NewList(float32(nan)), "SetTF": NewList().SetTF("#0", nan)}
		for name, l := range ls {
			if l.TypeOf(0) != TypeFloat || !isNaN(l.Get(0)) || !math.IsNaN(l.GetFloat(0)) || !l.AllFloats() || len(l.FloatSlice()) != 1 {
				return name + ": NaN is not stored as a float"
			}
		}
		os := map[string]Object{"NewObject": NewObject("k", nan), "Set": NewObject().Set("k", nan), "From[float64]": NewObjectFrom(map[string]float64{"k": nan}), "From[any]": NewObjectFrom(map[string]any{"k": nan}), "SetTF": NewObject().SetTF(".k", nan)}
		for name, o := range os {
			if o.TypeOf("k") != TypeFloat || !isNaN(o.Get("k")) || !math.IsNaN(o.GetFloat("k")) {
				return name + ": NaN is not stored as a float"
			}
		}
		return ""
	})
}

// zeroArgVariadics: a variadic mutator called without arguments is inside its documented domain: nothing changes,
// nothing panics, the receiver is returned
func zeroArgVariadics(c *oracleCtx) {
	c.check("zero-arg-variadics", true, func() string {
		for _, l := range []List{NewList(), NewList(1), NewList(1, "x", NewList(2), nil), NewListOf(0, 9).Delete(0, 1, 2), NewList(1, 2, 3).SubList(1, 3)} {
			before := l.String()
			var r1, r2 List
			if catch(func() { r1 = l.Delete() }) || catch(func() { r2 = l.Add() }) {
				return "Delete() / Add() without arguments panics on " + before
			}
			if r1 != l || r2 != l || l.String() != before {
				return "Delete() / Add() without arguments changes " + before + " or does not return the receiver"
			}
			var idx []int
			var vals []any
			if catch(func() { l.Delete(idx...); l.Add(vals...) }) || l.String() != before {
				return "Delete(none...) / Add(none...) is not a no-op on " + before
			}
		}
		for _, o := range []Object{NewObject(), NewObject("a", 1), NewObject("a", NewList(1), "", nil)} {
			n := o.Count()
			var r1, r2 Object
			var p Object
			if catch(func() { r1 = o.Set() }) || catch(func() { r2 = o.Unset() }) || catch(func() { p = o.Pluck() }) {
				return "Set() / Unset() / Pluck() without arguments panics"
			}
			if r1 != o || r2 != o || o.Count() != n || p == o || p.Count() != 0 {
				return "Set() / Unset() / Pluck() without arguments changes the object, does not return the receiver, or Pluck() is not a new empty object"
			}
		}
		if NewList().Count() != 0 || NewObject().Count() != 0 || NewListFrom([]any{}).Count() != 0 || NewObjectFrom(map[string]any{}).Count() != 0 {
			return "a constructor without content does not give an empty container"
		}
		return ""
	})
}

func c12Oracle(c *oracleCtx) {
	rawStrings(c, "both")
	nanIsFloat(c)
	everyStorePath(c)
	typedNativeNils(c)
	c.rule = "values of every supported dynamic type at range boundaries through every insertion entry point; Get type, TypeOf, exactly one typed getter; unsupported types rejected without being stored"
	type vc struct {
		id   string
		in   any
		want any
	}
	cases := []vc{
		{"int8-min", int8(-128), -128}, {"int8-max", int8(127), 127}, {"int16", int16(-32768), -32768}, {"int32", int32(math.MaxInt32), math.MaxInt32},
		{"int64-min", int64(math.MinInt64), math.MinInt64}, {"uint8-200", uint8(200), 200}, {"uint8-255", uint8(255), 255}, {"uint16-40000", uint16(40000), 40000},
		{"uint32-3e9", uint32(3000000000), 3000000000}, {"uint64-maxint", uint64(math.MaxInt64), math.MaxInt64}, {"uint-maxint", uint(math.MaxInt), math.MaxInt},
		{"uint-0", uint(0), 0}, {"f32-0.1", float32(0.1), float64(float32(0.1))}, {"f32-sub", float32(1e-45), float64(float32(1e-45))}, {"f64", 2.5, 2.5}, {"f64-inf", math.Inf(1), math.Inf(1)}, {"f64-ninf", math.Inf(-1), math.Inf(-1)}, {"f32-inf", float32(math.Inf(1)), math.Inf(1)}, {"f64-max", math.MaxFloat64, math.MaxFloat64},
		{"str", "x", "x"}, {"str-latin1", "caf\xe9", "caf\xe9"}, {"str-ff", "\xff", "\xff"}, {"str-cut", "\xe2\x82", "\xe2\x82"}, {"str-surrogate", "\xed\xa0\x80", "\xed\xa0\x80"}, {"bool", true, true}, {"nil", nil, nil}, {"int", -5, -5},
	}
	c.bound = fmt.Sprintf("%d scalar boundary values x 9 entry points, 14 native flavours, 25 unsupported types (defined types over every scalar kind, pointers, arrays, funcs, channels), %d raw byte strings through every entry point", len(cases), len(rawStrs))
	entry := func(name string, v any) (any, Type, []func()) {
		switch name {
		case "NewList":
			l := NewList(v)
			return l.Get(0), l.TypeOf(0), lgetters(l, 0)
		case "Add":
			l := NewList().Add(v)
			return l.Get(0), l.TypeOf(0), lgetters(l, 0)
		case "Insert":
			l := NewList(1).Insert(0, v)
			return l.Get(0), l.TypeOf(0), lgetters(l, 0)
		case "Replace":
			l := NewList(1).Replace(0, v)
			return l.Get(0), l.TypeOf(0), lgetters(l, 0)
		case "NewListOf":
			l := NewListOf(v, 2)
			return l.Get(1), l.TypeOf(1), lgetters(l, 1)
		case "ListSetTF":
			l := NewList().SetTF("#1", v)
			return l.Get(1), l.TypeOf(1), lgetters(l, 1)
		case "NewObject":
			o := NewObject("k", v)
			return o.Get("k"), o.TypeOf("k"), ogetters(o, "k")
		case "Set":
			o := NewObject().Set("k", v)
			return o.Get("k"), o.TypeOf("k"), ogetters(o, "k")
		}
		o := NewObject().SetTF(".a.k", v)
		return o.GetObject("a").Get("k"), o.GetObject("a").TypeOf("k"), ogetters(o.GetObject("a"), "k")
	}
	kindOf := func(v any) Type {
		switch v.(type) {
		case nil:
			return TypeNil
		case string:
			return TypeString
		case bool:
			return TypeBool
		case int:
			return TypeInt
		case float64:
			return TypeFloat
		case List:
			return TypeList
		case Object:
			return TypeObject
		}
		return TypeUndefined
	}
	for _, vc := range cases {
		for _, e := range []string{"NewList", "Add", "Insert", "Replace", "NewListOf", "ListSetTF", "NewObject", "Set", "ObjSetTF"} {
			vc, e := vc, e
			c.check(vc.id+"@"+e, true, func() string {
				got, ty, getters := entry(e, vc.in)
				if got != vc.want || reflect.TypeOf(got) != reflect.TypeOf(vc.want) {
					return fmt.Sprintf("stored %#v comes back as %#v", vc.in, got)
				}
				if ty != kindOf(vc.want) {
					return fmt.Sprintf("TypeOf reports %d for %#v", ty, got)
				}
				n := 0
				for _, g := range getters {
					if !catch(g) {
						n++
					}
				}
				if (vc.want == nil && n != 0) || (vc.want != nil && n != 1) {
					return fmt.Sprintf("%d typed getters succeed for %#v", n, got)
				}
				return ""
			})
		}
	}
	flav := []any{[]any{1, "a"}, []Object{NewObject("a", 1)}, []List{NewList(1)}, []string{"a", ""}, []bool{true}, []int{1, 2}, []float64{1.5},
		map[string]any{"a": 1}, map[string]Object{"o": NewObject()}, map[string]List{"l": NewList(2)}, map[string]string{"s": "v"}, map[string]bool{"b": true}, map[string]int{"i": 3}, map[string]float64{"f": 2.5}}
	for i, f := range flav {
		i, f := i, f
		c.check(fmt.Sprintf("flavour:%d", i), true, func() string {
			l := NewList(f)
			rv := reflect.ValueOf(f)
			if rv.Kind() == reflect.Slice {
				if l.TypeOf(0) != TypeList || l.GetList(0).Count() != rv.Len() {
					return "native slice not stored as a nested List with the same content"
				}
			} else if l.TypeOf(0) != TypeObject || l.GetObject(0).Count() != rv.Len() {
				return "native map not stored as a nested Object with the same content"
			}
			return ""
		})
	}
	for i, u := range []any{struct{}{}, []int8{1}, map[int]string{}, complex(1, 1), uintptr(1), []any{struct{}{}},
		// defined types are other types than the ones they are built on
		time.Duration(1500), time.Saturday, namedInt8(3), namedUint(3), namedString("x"), namedBool(true), namedFloat(1.5), namedFloat32(1.5), namedSlice{1}, namedMap{"a": 1},
		[]time.Duration{1}, map[string]namedInt8{"a": 1}, new(int), &struct{}{}, []any{time.Duration(1)}, map[string]any{"k": namedString("x")}, [2]int{1, 2}, func() {}, make(chan int)} {
		i, u := i, u
		c.check(fmt.Sprintf("unsupported:%d", i), true, func() string {
			l := NewList(1, 2)
			o := NewObject("a", 1)
			if !catch(func() { l.Add(u) }) || !catch(func() { l.Insert(1, u) }) || !catch(func() { l.Replace(0, u) }) || !catch(func() { o.Set("k", u) }) || !catch(func() { NewList(u) }) ||
				!catch(func() { NewListOf(u, 0) }) || !catch(func() { NewListOf(u, 2) }) || !catch(func() { l.SetTF("#0", u) }) || !catch(func() { o.SetTF(".k", u) }) || !catch(func() { NewObject("k", u) }) {
				return "unsupported value accepted"
			}
			if l.Count() != 2 || l.GetInt(0) != 1 || l.GetInt(1) != 2 || o.Count() != 1 {
				return "a rejected value left a trace in the container"
			}
			return ""
		})
	}
	// a rejected value in the middle of a multi-value Add must not leave non-kind elements behind
	c.check("partial-add", true, func() string {
		l := NewList(1)
		catch(func() { l.Add(2.5, struct{}{}, true) })
		for i := 0; i < l.Count(); i++ {
			if l.TypeOf(i) == TypeUndefined {
				return "element of no kind after a rejected Add"
			}
			if catch(func() { l.Get(i) }) {
				return "Get panics on an element left by a rejected Add"
			}
		}
		return ""
	})
}

type namedInt8 int8
type namedUint uint
type namedString string
type namedBool bool
type namedFloat float64
type namedFloat32 float32
type namedSlice []int
type namedMap map[string]int

func lgetters(l List, i int) []func() {
	return []func(){func() { l.GetObject(i) }, func() { l.GetList(i) }, func() { l.GetString(i) }, func() { l.GetBool(i) }, func() { l.GetInt(i) }, func() { l.GetFloat(i) }}
}
func ogetters(o Object, k string) []func() {
	return []func(){func() { o.GetObject(k) }, func() { o.GetList(k) }, func() { o.GetString(k) }, func() { o.GetBool(k) }, func() { o.GetInt(k) }, func() { o.GetFloat(k) }}
}

func init() {
	oracles["C06"] = c06Oracle
	oracles["C07"] = c07Oracle
	oracles["C08"] = c08Oracle
	oracles["C12"] = c12Oracle
	oracles["C13"] = c13Oracle
}
