#!/usr/bin/env python3
import sys,json
props=sys.argv[1:]
sys.argv=['check']
exec(open('/verif/check').read().split("def main():")[0])
for p in props:
    r=run_oracle(p,'quick',0)
    print(p, 'evals',r['evaluations'],'distinct',r['distinct'],'fails',len(r['fails']),'wall',r['wall_s'], r.get('error','')[-600:])
    for f in r['fails'][:8]: print('   ',json.dumps(f)[:400])
