#!/bin/bash
# Re-runs every kept seeded change against the current checks (on $VERIF_REPO, default /repo) and refreshes seeded/*/meta.json
cd "$(dirname "$0")"
export VERIF_REPO="${VP_RUN_REPO:-${VERIF_REPO:-/repo}}"
(cd engine && GOFLAGS=-mod=vendor GOPROXY=off GOSUMDB=off GOTOOLCHAIN=local go build -o ../bin/vcgo .)
for d in /verif/seeded/*/; do
  n=$(basename $d); id=${n%%-*}; var=${n#*-}
  # superseded originals whose rebased version exists are skipped
  if [ -d "/verif/seeded/${n}r" ]; then echo "skip $n (rebased)"; continue; fi
  echo "== $n"; timeout 1500 ./seedcheck.py $id $var 2>&1 | grep -E "DETECTED|missed|apply" | head -3
done
