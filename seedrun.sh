#!/bin/bash
# seedrun.sh <Cxx> <variants...>: confirm + check freshly delivered seeds of one property against a scratch clone of /repo
id=$1; shift
R=/tmp/seedrepo/$id
rm -rf $R; mkdir -p /tmp/seedrepo; git clone -q /repo $R
for v in "$@"; do
  echo "== $id-$v"
  VERIF_REPO=$R /verif/seedcheck.py $id $v 2>&1 | tail -12
done
rm -rf $R
