package main

// Parser for the //@ contract blocks of /repo/contracts_verif.go.
//
//   //@ func (*list).Reverse                       [C17 C05]
//   //@   requires  invL(ego)
//   //@   let       n := len(ego.val)
//   //@   assigns   list(ego)
//   //@   panics_iff false
//   //@   ensures   kept: len(ego.val) == n       [C05]
//   //@   loop 1
//   //@     invariant ...
//   //@     decreases ...
//
// A clause may be continued on following lines that start with "//@ ..|".

import (
	"bufio"
	"fmt"
	"os"
	"regexp"
	"strconv"
	"strings"
)

type Clause struct {
	Label string
	Src   string
	E     Expr
	Props []string
	Line  int
}

type Define struct {
	Name   string
	Params []QVar
	E      Expr
	Line   int
}

type OthersClause struct {
	Var  QVar
	C    *Clause
}

// AppendsClause: a closure that appends exactly one element to a captured slice per invocation
// (sequence-accumulating closure): `appends <elemvar> :: <slice expr> :: <fact about the parameters and elemvar>`
type AppendsClause struct {
	Var      string
	SliceSrc string
	FactSrc  string
	Props    []string
	Line     int
}

type Let struct {
	Name string
	E    Expr
	Line int
}

type LoopSpec struct {
	Assigns   []*Clause
	Invs      []*Clause
	Decreases *Clause
	Lets      []*Let
	ELets     []*Let // evaluated once at loop entry (before the havoc)
	Publish   bool   // containers under construction are published (become subject to wf) at loop entry
}

type CallWith struct {
	Callee string // callee name e.g. "Reduce"
	Ord    int
	Binds  map[string]string // ghost name -> spec source
}

type Contract struct {
	Func      string
	Kind      string // "func" | "iface" | "extern" | "lemma"
	Props     []string
	Requires  []*Clause
	Ensures   []*Clause
	PanicsIff *Clause
	PanicsIf  *Clause // one-directional: panic ==> P
	OnPanic   []*Clause
	Assigns   []*Clause
	Lets      []*Let
	PLets     []*Let // evaluated in the post-state (may mention result)
	Loops     map[int]*LoopSpec
	Ghost     []QVar
	Defines   []*Define
	Returns   []*Clause // closures: functional postconditions (may mention parameters and result only)
	Each      []*Clause // accumulating closures: fact established for the key (first argument) of this invocation
	Others    []*OthersClause // accumulating closures: what holds for every key other than this invocation's
	Appends   []*AppendsClause
	CbArgs    *Clause   // callees: what every callback invocation's arguments (a0, a1) satisfy
	Decreases *Clause
	Flags     map[string]bool // inline, trusted, wraps, nocheck
	Line      int
	Schema    string
}

var reHead = regexp.MustCompile(`^(func|iface|extern|lemma)\s+(\S+)\s*(.*)$`)
var reProps = regexp.MustCompile(`\[((?:(?:C\d+|AUX)\s*)+)\]\s*$`)
var reLabel = regexp.MustCompile(`^([a-z][A-Za-z0-9_-]*):\s+(.*)$`)

type ContractFile struct {
	ByFunc map[string]*Contract
	Order  []*Contract
	Lemmas []*Contract
}

func splitProps(s string) (string, []string) {
	m := reProps.FindStringSubmatch(s)
	if m == nil {
		return strings.TrimSpace(s), nil
	}
	rest := strings.TrimSpace(s[:len(s)-len(m[0])])
	return rest, strings.Fields(m[1])
}

func loadContracts(path string) (*ContractFile, error) {
	f, err := os.Open(path)
	if err != nil {
		return nil, err
	}
	defer f.Close()
	cf := &ContractFile{ByFunc: map[string]*Contract{}}
	sc := bufio.NewScanner(f)
	sc.Buffer(make([]byte, 1<<20), 1<<20)
	var lines []string
	var lnos []int
	ln := 0
	for sc.Scan() {
		ln++
		t := strings.TrimSpace(sc.Text())
		if !strings.HasPrefix(t, "//@") {
			continue
		}
		body := strings.TrimSpace(t[3:])
		if body == "" {
			continue
		}
		if strings.HasPrefix(body, "..|") && len(lines) > 0 {
			lines[len(lines)-1] += " " + strings.TrimSpace(body[3:])
			continue
		}
		// strip trailing // comment
		if i := strings.Index(body, " // "); i >= 0 {
			body = strings.TrimSpace(body[:i])
		}
		lines = append(lines, body)
		lnos = append(lnos, ln)
	}
	// textual templates: "template NAME(P1, P2)" ... "end"; "instantiate NAME(a1, a2)"
	{
		type tmpl struct {
			params []string
			body   []string
			lnos   []int
		}
		tmpls := map[string]*tmpl{}
		var outL []string
		var outN []int
		var curT *tmpl
		reT := regexp.MustCompile(`^(template|instantiate)\s+([A-Za-z0-9_-]+)\((.*)\)$`)
		for i, l := range lines {
			if l == "end" && curT != nil {
				curT = nil
				continue
			}
			if m := reT.FindStringSubmatch(l); m != nil {
				var args []string
				for _, a := range strings.Split(m[3], ",") {
					args = append(args, strings.TrimSpace(a))
				}
				if m[1] == "template" {
					curT = &tmpl{params: args}
					tmpls[m[2]] = curT
					continue
				}
				t := tmpls[m[2]]
				if t == nil || len(t.params) != len(args) {
					return nil, fmt.Errorf("contracts:%d: bad instantiate %s", lnos[i], m[2])
				}
				for k, b := range t.body {
					for j, prm := range t.params {
						b = strings.ReplaceAll(b, prm, args[j])
					}
					outL = append(outL, b)
					outN = append(outN, t.lnos[k])
				}
				continue
			}
			if curT != nil {
				curT.body = append(curT.body, l)
				curT.lnos = append(curT.lnos, lnos[i])
				continue
			}
			outL = append(outL, l)
			outN = append(outN, lnos[i])
		}
		lines, lnos = outL, outN
	}
	var cur *Contract
	var curLoop *LoopSpec
	auto := 0
	for i, l := range lines {
		ln := lnos[i]
		if m := reHead.FindStringSubmatch(l); m != nil {
			rest, props := splitProps(m[3])
			cur = &Contract{Func: m[2], Kind: m[1], Props: props, Loops: map[int]*LoopSpec{}, Flags: map[string]bool{}, Line: ln}
			for _, fl := range strings.Fields(rest) {
				cur.Flags[fl] = true
			}
			curLoop = nil
			auto = 0
			if _, dup := cf.ByFunc[cur.Func]; dup {
				return nil, fmt.Errorf("contracts:%d: duplicate contract for %s", ln, cur.Func)
			}
			cf.ByFunc[cur.Func] = cur
			cf.Order = append(cf.Order, cur)
			if cur.Kind == "lemma" {
				cf.Lemmas = append(cf.Lemmas, cur)
			}
			continue
		}
		if cur == nil {
			return nil, fmt.Errorf("contracts:%d: clause outside a contract: %s", ln, l)
		}
		sp := strings.IndexAny(l, " \t")
		kw, rest := l, ""
		if sp > 0 {
			kw, rest = l[:sp], strings.TrimSpace(l[sp:])
		}
		mk := func() (*Clause, error) {
			src, props := splitProps(rest)
			label := ""
			if m := reLabel.FindStringSubmatch(src); m != nil {
				label, src = m[1], m[2]
			} else {
				auto++
				label = fmt.Sprintf("c%d", auto)
			}
			e, err := parseSpec(src)
			if err != nil {
				return nil, fmt.Errorf("contracts:%d: %v", ln, err)
			}
			if props == nil {
				props = cur.Props
			}
			return &Clause{Label: label, Src: src, E: e, Props: props, Line: ln}, nil
		}
		switch kw {
		case "define":
			// define NAME(p1 type, p2 type) := expr
			m := regexp.MustCompile(`^([A-Za-z_][A-Za-z0-9_]*)\(([^)]*)\)\s*:=\s*(.*)$`).FindStringSubmatch(rest)
			if m == nil {
				return nil, fmt.Errorf("contracts:%d: bad define", ln)
			}
			d := &Define{Name: m[1], Line: ln}
			for _, prm := range strings.Split(m[2], ",") {
				fs := strings.Fields(prm)
				if len(fs) != 2 {
					return nil, fmt.Errorf("contracts:%d: bad define parameter", ln)
				}
				d.Params = append(d.Params, QVar{fs[0], fs[1]})
			}
			e, err := parseSpec(m[3])
			if err != nil {
				return nil, fmt.Errorf("contracts:%d: %v", ln, err)
			}
			d.E = e
			cur.Defines = append(cur.Defines, d)
		case "appends":
			parts := strings.SplitN(rest, "::", 3)
			if len(parts) != 3 {
				return nil, fmt.Errorf("contracts:%d: bad appends clause", ln)
			}
			fsrc, props := splitProps(strings.TrimSpace(parts[2]))
			if props == nil {
				props = cur.Props
			}
			if _, err := parseSpec(fsrc); err != nil {
				return nil, fmt.Errorf("contracts:%d: %v", ln, err)
			}
			cur.Appends = append(cur.Appends, &AppendsClause{Var: strings.TrimSpace(parts[0]), SliceSrc: strings.TrimSpace(parts[1]), FactSrc: fsrc, Props: props, Line: ln})
		case "others":
			// others <var> <type> :: <expr>
			m := regexp.MustCompile(`^([A-Za-z_][A-Za-z0-9_]*)\s+([a-z0-9]+)\s*::\s*(.*)$`).FindStringSubmatch(rest)
			if m == nil {
				return nil, fmt.Errorf("contracts:%d: bad others clause", ln)
			}
			e, err := parseSpec(m[3])
			if err != nil {
				return nil, fmt.Errorf("contracts:%d: %v", ln, err)
			}
			cur.Others = append(cur.Others, &OthersClause{Var: QVar{m[1], m[2]}, C: &Clause{Label: fmt.Sprintf("others%d", len(cur.Others)+1), Src: m[3], E: e, Props: cur.Props, Line: ln}})
		case "requires", "ensures", "on_panic", "invariant", "assigns", "panics_iff", "panics_if", "decreases", "returns", "each", "callback_args":
			c, err := mk()
			if err != nil {
				return nil, err
			}
			switch kw {
			case "requires":
				cur.Requires = append(cur.Requires, c)
			case "ensures":
				cur.Ensures = append(cur.Ensures, c)
			case "returns":
				cur.Returns = append(cur.Returns, c)
			case "each":
				cur.Each = append(cur.Each, c)
			case "callback_args":
				cur.CbArgs = c
			case "on_panic":
				cur.OnPanic = append(cur.OnPanic, c)
			case "assigns":
				if curLoop != nil {
					curLoop.Assigns = append(curLoop.Assigns, c)
				} else {
					cur.Assigns = append(cur.Assigns, c)
				}
			case "panics_iff":
				cur.PanicsIff = c
			case "panics_if":
				cur.PanicsIf = c
			case "invariant":
				if curLoop == nil {
					return nil, fmt.Errorf("contracts:%d: invariant outside loop", ln)
				}
				curLoop.Invs = append(curLoop.Invs, c)
			case "decreases":
				if curLoop != nil {
					curLoop.Decreases = c
				} else {
					cur.Decreases = c
				}
			}
		case "let", "plet", "elet":
			parts := strings.SplitN(rest, ":=", 2)
			if len(parts) != 2 {
				return nil, fmt.Errorf("contracts:%d: bad let", ln)
			}
			e, err := parseSpec(strings.TrimSpace(parts[1]))
			if err != nil {
				return nil, fmt.Errorf("contracts:%d: %v", ln, err)
			}
			lt := &Let{Name: strings.TrimSpace(parts[0]), E: e, Line: ln}
			if kw == "plet" {
				cur.PLets = append(cur.PLets, lt)
			} else if kw == "elet" && curLoop != nil {
				curLoop.ELets = append(curLoop.ELets, lt)
			} else if curLoop != nil {
				curLoop.Lets = append(curLoop.Lets, lt)
			} else {
				cur.Lets = append(cur.Lets, lt)
			}
		case "loop":
			curLoop = &LoopSpec{}
			for _, f := range strings.Split(rest, ",") {
				n, err := strconv.Atoi(strings.TrimSpace(f))
				if err != nil {
					return nil, fmt.Errorf("contracts:%d: bad loop ordinal", ln)
				}
				cur.Loops[n] = curLoop
			}
		case "publish":
			if curLoop != nil {
				curLoop.Publish = true
			}
		case "ghost":
			for _, g := range strings.Split(rest, ",") {
				fs := strings.Fields(g)
				if len(fs) != 2 {
					return nil, fmt.Errorf("contracts:%d: bad ghost decl", ln)
				}
				cur.Ghost = append(cur.Ghost, QVar{fs[0], fs[1]})
			}
		case "flag":
			for _, fl := range strings.Fields(rest) {
				cur.Flags[fl] = true
			}
		default:
			return nil, fmt.Errorf("contracts:%d: unknown clause keyword %q", ln, kw)
		}
	}
	return cf, nil
}
