package main

// Symbolic values and the Go-type -> SMT-sort mapping.

import (
	"fmt"
	"go/types"
	"strings"

	"golang.org/x/tools/go/ssa"
)

type Sort int

const (
	SInt Sort = iota
	SBool
	SStr
	SF64
	SVal
	SRefL // *list
	SRefO // *object
	SUnk
	SPerm // (Array Int Int), a ghost permutation
	SOrd  // (Array Int Str), a ghost enumeration of map keys
	SOrdInv // (Array Str Int), its inverse
)

func (s Sort) smt() string {
	switch s {
	case SInt, SRefL, SRefO:
		return "Int"
	case SBool:
		return "Bool"
	case SStr:
		return "Str"
	case SF64:
		return "F64"
	case SVal:
		return "Val"
	}
	return "Int"
}

type SVK int

const (
	KTerm SVK = iota
	KSlice
	KLoc
	KTuple
	KFunc
	KMap
	KArrPtr
	KOpaque
	KIter // map iterator: T = map id, Loc.Cell = position cell, Arr = ord array, Off = inverse array, Len = number of keys
)

type Loc struct {
	Kind  string // "lfield" "ofield" "wfield" "slot" "cell" "slicecell"
	Ref   string
	Field string // val | ptr
	Arr   string
	Idx   string
	Elem  types.Type
	Cell  string
	Owner string
}

type FnVal struct {
	Fn    *ssa.Function
	Binds []SV
	Param string // non-empty: an unknown callback (function-typed parameter)
	Sig   *types.Signature
}

type SV struct {
	K    SVK
	T    string
	S    Sort
	Arr  string
	Off  string
	Len  string
	Cap  string
	Elem types.Type
	Loc  *Loc
	Tup  []SV
	Fn   *FnVal
	MapT *types.Map
	Go   types.Type
	Owner string // slices loaded from a list header: the list reference
}

func term(t string, s Sort) SV { return SV{K: KTerm, T: t, S: s} }

func (v SV) String() string {
	switch v.K {
	case KTerm:
		return v.T
	case KSlice:
		return fmt.Sprintf("slice(%s,%s,%s,%s)", v.Arr, v.Off, v.Len, v.Cap)
	case KMap:
		return "map(" + v.T + ")"
	case KLoc:
		return fmt.Sprintf("loc(%+v)", *v.Loc)
	case KTuple:
		var ss []string
		for _, e := range v.Tup {
			ss = append(ss, e.String())
		}
		return "(" + strings.Join(ss, ", ") + ")"
	}
	return fmt.Sprintf("sv(%d)", v.K)
}

func isNamed(t types.Type, name string) bool {
	if n, ok := t.(*types.Named); ok {
		return n.Obj().Name() == name && n.Obj().Pkg() != nil && n.Obj().Pkg().Name() == "anytype"
	}
	return false
}

func ptrToNamed(t types.Type) string {
	if p, ok := t.(*types.Pointer); ok {
		if n, ok := p.Elem().(*types.Named); ok && n.Obj().Pkg() != nil && n.Obj().Pkg().Name() == "anytype" {
			return n.Obj().Name()
		}
	}
	return ""
}

var wrapperCtor = map[string]string{"atString": "WStr", "atBool": "WBool", "atInt": "WInt", "atFloat": "WFloat", "atNil": "WNil"}
var wrapperSel = map[string]string{"atString": "wstr", "atBool": "wbool", "atInt": "wint", "atFloat": "wfloat"}

// sortOf maps a Go type to the sort of its KTerm representation
// (SUnk for types that are not represented as a single term).
func sortOf(t types.Type) Sort {
	switch ptrToNamed(t) {
	case "list":
		return SRefL
	case "object":
		return SRefO
	case "atString", "atBool", "atInt", "atFloat", "atNil":
		return SVal
	}
	switch u := t.Underlying().(type) {
	case *types.Basic:
		switch {
		case u.Info()&types.IsInteger != 0:
			return SInt
		case u.Info()&types.IsBoolean != 0:
			return SBool
		case u.Info()&types.IsString != 0:
			return SStr
		case u.Info()&types.IsFloat != 0:
			return SF64
		case u.Kind() == types.UntypedNil:
			return SVal
		}
	case *types.Interface:
		return SVal
	}
	return SUnk
}

// intRange returns the value range of a Go integer type (64-bit platform).
func intRange(t types.Type) (lo, hi string, ok bool) {
	b, isB := t.Underlying().(*types.Basic)
	if !isB {
		return
	}
	switch b.Kind() {
	case types.Int, types.Int64, types.UntypedInt:
		return "(- 9223372036854775808)", "9223372036854775807", true
	case types.Int32, types.UntypedRune:
		return "(- 2147483648)", "2147483647", true
	case types.Int16:
		return "(- 32768)", "32767", true
	case types.Int8:
		return "(- 128)", "127", true
	case types.Uint, types.Uint64, types.Uintptr:
		return "0", "18446744073709551615", true
	case types.Uint32:
		return "0", "4294967295", true
	case types.Uint16:
		return "0", "65535", true
	case types.Uint8:
		return "0", "255", true
	}
	return
}

// intKind numbers the non-int integer types for VIntK.
func intKind(t types.Type) int {
	b, isB := t.Underlying().(*types.Basic)
	if !isB {
		return -1
	}
	switch b.Kind() {
	case types.Int:
		return 0
	case types.Int64:
		return 1
	case types.Int32:
		return 2
	case types.Int16:
		return 3
	case types.Int8:
		return 4
	case types.Uint:
		return 5
	case types.Uint64:
		return 6
	case types.Uint32:
		return 7
	case types.Uint16:
		return 8
	case types.Uint8:
		return 9
	}
	return -1
}

// flavour numbers the element types of the supported native slices / maps.
func flavour(elem types.Type) int {
	switch {
	case isNamed(elem, "Object"):
		return 2
	case isNamed(elem, "List"):
		return 3
	}
	switch u := elem.Underlying().(type) {
	case *types.Interface:
		if u.Empty() {
			return 1
		}
		return 10
	case *types.Basic:
		switch u.Kind() {
		case types.String:
			return 4
		case types.Bool:
			return 5
		case types.Int:
			return 6
		case types.Float64:
			return 7
		case types.Uint8:
			return 8
		}
	}
	return 11
}

// typeInv returns an SMT formula stating that term t is a well-typed value
// of Go type ty (or "" if nothing is known).
func typeInv(ty types.Type, t string) string {
	switch {
	case isNamed(ty, "List"):
		return fmt.Sprintf("(or (= %s VNil) ((_ is VList) %s))", t, t)
	case isNamed(ty, "Object"):
		return fmt.Sprintf("(or (= %s VNil) ((_ is VObj) %s))", t, t)
	case isNamed(ty, "field"):
		return fmt.Sprintf("(or (= %s VNil) (isField %s))", t, t)
	}
	if w := ptrToNamed(ty); w != "" {
		if c, ok := wrapperCtor[w]; ok {
			return fmt.Sprintf("((_ is %s) %s)", c, t)
		}
		return fmt.Sprintf("(<= 0 %s)", t)
	}
	if n, ok := ty.(*types.Named); ok && n.Obj().Name() == "error" {
		return fmt.Sprintf("(or (= %s VNil) ((_ is VErr) %s))", t, t)
	}
	if lo, hi, ok := intRange(ty); ok {
		return fmt.Sprintf("(and (<= %s %s) (<= %s %s))", lo, t, t, hi)
	}
	return ""
}

// wrapElem / unwrapElem convert between an element of Go type ty and the
// Val stored in a backing array or map.
func wrapElem(ty types.Type, t string) string {
	switch sortOf(ty) {
	case SInt:
		return "(VInt " + t + ")"
	case SBool:
		return "(VBool " + t + ")"
	case SStr:
		return "(VStr " + t + ")"
	case SF64:
		return "(VFloat " + t + ")"
	}
	return t
}

func unwrapElem(ty types.Type, t string) SV {
	switch sortOf(ty) {
	case SInt:
		return term("(vint "+t+")", SInt)
	case SBool:
		return term("(vbool "+t+")", SBool)
	case SStr:
		return term("(vstr "+t+")", SStr)
	case SF64:
		return term("(vfloat "+t+")", SF64)
	}
	return SV{K: KTerm, T: t, S: SVal, Go: ty}
}

func zeroElem(ty types.Type) string {
	switch sortOf(ty) {
	case SInt:
		return "(VInt 0)"
	case SBool:
		return "(VBool false)"
	case SStr:
		return "(VStr str_empty)"
	case SF64:
		return "(VFloat (i2f 0))"
	}
	return "VNil"
}
