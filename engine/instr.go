package main

// SSA instruction semantics.

import (
	"go/constant"
	"fmt"
	"go/token"
	"strings"
	"go/types"

	"golang.org/x/tools/go/ssa"
)

func (x *Exec) bind(p *Path, v ssa.Value, sv SV) { p.top().env[v] = sv }

// define introduces a named constant for a term (keeps queries readable and terms small).
func (x *Exec) define(p *Path, hint string, sv SV) SV {
	if sv.K != KTerm || len(sv.T) < 24 {
		return sv
	}
	n := x.fresh(hint)
	p.declare(n, sv.S.smt())
	p.assume(fmt.Sprintf("(= %s %s)", n, sv.T))
	sv.T = n
	return sv
}

func (x *Exec) execInstr(p *Path, in ssa.Instruction, work *[]*Path) bool {
	f := p.top()
	switch v := in.(type) {
	case *ssa.DebugRef:
		return true
	case *ssa.Phi:
		return true // handled at jump
	case *ssa.Jump:
		return x.jump(p, f.blk.Succs[0])
	case *ssa.If:
		c := x.val(p, v.Cond)
		q := p.clone()
		p.assume(c.T)
		q.assume("(not " + c.T + ")")
		if x.jumpClone(q, f.blk.Succs[1]) {
			*work = append(*work, q)
		}
		return x.jump(p, f.blk.Succs[0])
	case *ssa.Return:
		var res []SV
		for _, r := range v.Results {
			res = append(res, x.val(p, r))
		}
		if f.isTop && len(p.frames) == 1 {
			x.exitNormal(p, res, in)
			return false
		}
		// return from an inlined call
		p.frames = p.frames[:len(p.frames)-1]
		if f.ret != nil {
			var r SV
			if len(res) == 1 {
				r = res[0]
			} else {
				r = SV{K: KTuple, Tup: res}
			}
			p.top().env[f.ret] = r
		}
		p.desc = append(p.desc, "ret")
		return true
	case *ssa.Panic:
		x.exitPanic(p, "explicit", in)
		return false
	case *ssa.Alloc:
		x.bind(p, v, x.execAlloc(p, v))
		return true
	case *ssa.FieldAddr:
		x.bind(p, v, x.execFieldAddr(p, v))
		return true
	case *ssa.IndexAddr:
		base := x.val(p, v.X)
		idx := x.val(p, v.Index)
		switch base.K {
		case KSlice:
			x.guard(p, fmt.Sprintf("(and (<= 0 %s) (< %s %s))", idx.T, idx.T, base.Len), "index", in)
			x.bind(p, v, SV{K: KLoc, Loc: &Loc{Kind: "slot", Arr: base.Arr, Idx: fmt.Sprintf("(+ %s %s)", base.Off, idx.T), Elem: base.Elem, Owner: base.Owner}})
		case KArrPtr:
			x.guard(p, fmt.Sprintf("(and (<= 0 %s) (< %s %s))", idx.T, idx.T, base.Len), "index", in)
			x.bind(p, v, SV{K: KLoc, Loc: &Loc{Kind: "slot", Arr: base.Arr, Idx: idx.T, Elem: base.Elem}})
		default:
			x.errorf("%s: IndexAddr on %s", x.cur.ct.Func, base.String())
			return false
		}
		return true
	case *ssa.UnOp:
		return x.execUnOp(p, v)
	case *ssa.Store:
		return x.execStore(p, v)
	case *ssa.BinOp:
		x.bind(p, v, x.execBinOp(p, v))
		return true
	case *ssa.MakeInterface:
		x.bind(p, v, x.makeInterface(p, v.X.Type(), x.val(p, v.X)))
		return true
	case *ssa.ChangeInterface:
		sv := x.val(p, v.X)
		sv.Go = v.Type()
		x.bind(p, v, sv)
		return true
	case *ssa.ChangeType:
		sv := x.val(p, v.X)
		sv.Go = v.Type()
		x.bind(p, v, sv)
		return true
	case *ssa.Convert:
		x.bind(p, v, x.execConvert(p, v))
		return true
	case *ssa.TypeAssert:
		return x.execTypeAssert(p, v)
	case *ssa.Extract:
		t := x.val(p, v.Tuple)
		if t.K != KTuple || v.Index >= len(t.Tup) {
			x.errorf("%s: extract from non-tuple", x.cur.ct.Func)
			return false
		}
		x.bind(p, v, t.Tup[v.Index])
		return true
	case *ssa.MakeSlice:
		ln := x.val(p, v.Len)
		cp := x.val(p, v.Cap)
		x.guard(p, fmt.Sprintf("(and (<= 0 %s) (<= %s %s))", ln.T, ln.T, cp.T), "makeslice", in)
		el := v.Type().Underlying().(*types.Slice).Elem()
		ak := "KNARR"
		if isNamed(el, "field") {
			ak = "KARR"
		}
		a := x.alloc(p, ak, 1)
		// zero-filled
		p.assume(fmt.Sprintf("(forall ((k Int)) (! (= (select (select (Mem %s) %s) k) %s) :pattern ((select (select (Mem %s) %s) k))))", p.H, a, zeroElem(el), p.H, a))
		x.bind(p, v, SV{K: KSlice, Arr: a, Off: "0", Len: ln.T, Cap: cp.T, Elem: el})
		return true
	case *ssa.MakeMap:
		mk := "KNMAP"
		if isNamed(v.Type().Underlying().(*types.Map).Elem(), "field") {
			mk = "KMAP"
		}
		m := x.alloc(p, mk, 1)
		p.assume(fmt.Sprintf("(forall ((k Str)) (! (not (select (select (MDom %s) %s) k)) :pattern ((select (select (MDom %s) %s) k))))", p.H, m, p.H, m))
		p.assume(fmt.Sprintf("(= (select (MCard %s) %s) 0)", p.H, m))
		x.bind(p, v, SV{K: KMap, T: m, MapT: v.Type().Underlying().(*types.Map)})
		return true
	case *ssa.Slice:
		return x.execSlice(p, v)
	case *ssa.Lookup:
		return x.execLookup(p, v)
	case *ssa.Index:
		a := x.val(p, v.X)
		k := x.val(p, v.Index)
		if a.K == KTerm && a.S == SStr {
			x.guard(p, fmt.Sprintf("(and (<= 0 %s) (< %s (slen %s)))", k.T, k.T, a.T), "string-index", v)
			x.bind(p, v, term(fmt.Sprintf("(at %s %s)", a.T, k.T), SInt))
			return true
		}
		x.errorf("%s: index of %s", x.cur.ct.Func, a.String())
		return false
	case *ssa.MapUpdate:
		return x.execMapUpdate(p, v)
	case *ssa.MakeClosure:
		var binds []SV
		for _, b := range v.Bindings {
			binds = append(binds, x.val(p, b))
		}
		x.bind(p, v, SV{K: KFunc, Fn: &FnVal{Fn: v.Fn.(*ssa.Function), Binds: binds}})
		return true
	case *ssa.Call:
		return x.execCall(p, v, v, work)
	case *ssa.Range:
		return x.execRange(p, v)
	case *ssa.Next:
		return x.execNext(p, v)
	case *ssa.Go:
		return x.execGo(p, v, work)
	}
	x.errorf("%s: unsupported instruction %T (%s) at %s", x.cur.ct.Func, in, in, x.pos(in))
	return false
}

// jumpClone performs jump on a freshly cloned path whose top frame mirrors the original.
func (x *Exec) jumpClone(q *Path, b *ssa.BasicBlock) bool {
	return x.jump(q, b)
}

func (x *Exec) execAlloc(p *Path, v *ssa.Alloc) SV {
	et := v.Type().(*types.Pointer).Elem()
	if n, ok := et.(*types.Named); ok && n.Obj().Pkg() != nil && n.Obj().Pkg().Name() == "anytype" {
		switch n.Obj().Name() {
		case "list":
			r := x.alloc(p, "KNEW", 1)
			x.updMulti(p, map[string]string{
				"Larr": fmt.Sprintf("(store (Larr %s) %s 0)", p.H, r),
				"Loff": fmt.Sprintf("(store (Loff %s) %s 0)", p.H, r),
				"Llen": fmt.Sprintf("(store (Llen %s) %s 0)", p.H, r),
				"Lcap": fmt.Sprintf("(store (Lcap %s) %s 0)", p.H, r),
				"Lptr": fmt.Sprintf("(store (Lptr %s) %s VNil)", p.H, r)})
			p.assume(fmt.Sprintf("(plain %s)", r))
			p.unpub = append(p.unpub, "KLIST|"+r)
			return term(r, SRefL)
		case "object":
			r := x.alloc(p, "KNEW", 1)
			x.updMulti(p, map[string]string{
				"Omap": fmt.Sprintf("(store (Omap %s) %s 0)", p.H, r),
				"Optr": fmt.Sprintf("(store (Optr %s) %s VNil)", p.H, r)})
			p.assume(fmt.Sprintf("(plain %s)", r))
			p.unpub = append(p.unpub, "KOBJ|"+r)
			return term(r, SRefO)
		}
	}
	switch u := et.Underlying().(type) {
	case *types.Array:
		ak := "KNARR"
		if isNamed(u.Elem(), "field") {
			ak = "KARR"
		}
		a := x.alloc(p, ak, 1)
		return SV{K: KArrPtr, Arr: a, Len: fmt.Sprint(u.Len()), Elem: u.Elem()}
	case *types.Slice:
		c := x.alloc(p, "KCELL", 4)
		l := &Loc{Kind: "cell", Cell: c, Elem: et}
		x.writeCell(p, l, SV{K: KSlice, Arr: "0", Off: "0", Len: "0", Cap: "0", Elem: u.Elem()})
		return SV{K: KLoc, Loc: l}
	}
	c := x.alloc(p, "KCELL", 1)
	l := &Loc{Kind: "cell", Cell: c, Elem: et}
	// zero value
	switch sortOf(et) {
	case SInt, SRefL, SRefO:
		x.store1(p, "CInt", c, "0")
	case SBool:
		x.store1(p, "CBool", c, "false")
	case SStr:
		x.store1(p, "CStr", c, "str_empty")
	case SVal:
		x.store1(p, "CVal", c, "VNil")
	case SF64:
		x.store1(p, "CF64", c, "(i2f 0)")
	default:
		if _, isMap := et.Underlying().(*types.Map); isMap {
			x.store1(p, "CInt", c, "0")
		} else if isSyncType(et, "WaitGroup") {
			l.Elem = types.Typ[types.Int]
			x.store1(p, "CInt", c, "0")
		} else if isSyncType(et, "Mutex") {
			l.Elem = types.Typ[types.Bool]
			x.store1(p, "CBool", c, "false")
			p.mutexes = append(p.mutexes, c)
		} else if isBuilder(et) {
			l.Kind = "builder"
			x.store1(p, "CStr", c, "str_empty")
		} else {
			l.Kind = "opaque"
		}
	}
	return SV{K: KLoc, Loc: l}
}

func isSyncType(t types.Type, name string) bool {
	n, ok := t.(*types.Named)
	return ok && n.Obj().Name() == name && n.Obj().Pkg() != nil && n.Obj().Pkg().Path() == "sync"
}

func isBuilder(t types.Type) bool {
	n, ok := t.(*types.Named)
	return ok && n.Obj().Name() == "Builder" && n.Obj().Pkg() != nil && n.Obj().Pkg().Path() == "strings"
}

func (x *Exec) execFieldAddr(p *Path, v *ssa.FieldAddr) SV {
	base := x.val(p, v.X)
	st := v.X.Type().(*types.Pointer).Elem().Underlying().(*types.Struct)
	fname := st.Field(v.Field).Name()
	if nm := ptrToNamed(v.X.Type()); (nm == "list" || nm == "object") && fname != "val" && fname != "ptr" {
		// a field the model does not know (a cache, a counter, a flag added to the struct): the contract of this
		// function no longer binds; the bounded oracle decides
		x.errorf("%s: unsupported field %s.%s at %s (the heap model knows val and ptr)", x.cur.ct.Func, nm, fname, x.pos(v))
		return SV{K: KOpaque}
	}
	switch ptrToNamed(v.X.Type()) {
	case "list":
		x.guard(p, fmt.Sprintf("(not (= %s 0))", base.T), "nil-deref", v)
		return SV{K: KLoc, Loc: &Loc{Kind: "lfield", Ref: base.T, Field: fname, Elem: st.Field(v.Field).Type()}}
	case "object":
		x.guard(p, fmt.Sprintf("(not (= %s 0))", base.T), "nil-deref", v)
		return SV{K: KLoc, Loc: &Loc{Kind: "ofield", Ref: base.T, Field: fname, Elem: st.Field(v.Field).Type()}}
	case "atString", "atBool", "atInt", "atFloat", "atNil":
		return SV{K: KLoc, Loc: &Loc{Kind: "wfield", Ref: base.T, Field: ptrToNamed(v.X.Type()), Elem: st.Field(v.Field).Type()}}
	}
	x.errorf("%s: FieldAddr on %s", x.cur.ct.Func, v.X.Type())
	return SV{K: KOpaque}
}

func (x *Exec) load(p *Path, l *Loc) SV {
	H := p.H
	switch l.Kind {
	case "lfield":
		if l.Field == "val" {
			g := func(c string) string { return fmt.Sprintf("(select (%s %s) %s)", c, H, l.Ref) }
			return SV{K: KSlice, Arr: g("Larr"), Off: g("Loff"), Len: g("Llen"), Cap: g("Lcap"), Elem: x.fieldType, Owner: l.Ref}
		}
		return SV{K: KTerm, T: fmt.Sprintf("(select (Lptr %s) %s)", H, l.Ref), S: SVal, Go: l.Elem}
	case "ofield":
		if l.Field == "val" {
			return SV{K: KMap, T: fmt.Sprintf("(select (Omap %s) %s)", H, l.Ref), MapT: x.fieldMapType}
		}
		return SV{K: KTerm, T: fmt.Sprintf("(select (Optr %s) %s)", H, l.Ref), S: SVal, Go: l.Elem}
	case "wfield":
		sel := wrapperSel[l.Field]
		return SV{K: KTerm, T: fmt.Sprintf("(%s %s)", sel, l.Ref), S: sortOf(l.Elem), Go: l.Elem}
	case "slot":
		return unwrapElem(l.Elem, fmt.Sprintf("(select (select (Mem %s) %s) %s)", H, l.Arr, l.Idx))
	case "cell", "builder":
		return x.readCell(H, l)
	case "opaque":
		if sv, ok := p.cellSV[l.Cell]; ok {
			return sv
		}
	}
	return SV{K: KOpaque}
}

func (x *Exec) execUnOp(p *Path, v *ssa.UnOp) bool {
	a := x.val(p, v.X)
	switch v.Op {
	case token.MUL:
		if a.K != KLoc {
			x.errorf("%s: load from %s at %s", x.cur.ct.Func, a.String(), x.pos(v))
			return false
		}
		sv := x.load(p, a.Loc)
		if a.Loc.Kind == "lfield" && a.Loc.Field == "val" && x.isDeadTemp(v.X) {
			// storage of a non-escaping temporary list is adopted: the temporary is dead from here on
			// ghost: the unreachable temporary gives up its spine (it becomes an empty list with a spine of its own)
			g := x.alloc(p, "KARR", 1)
			x.updMulti(p, map[string]string{
				"Larr": fmt.Sprintf("(store (Larr %s) %s %s)", p.H, a.Loc.Ref, g),
				"Llen": fmt.Sprintf("(store (Llen %s) %s 0)", p.H, a.Loc.Ref),
				"Lcap": fmt.Sprintf("(store (Lcap %s) %s 0)", p.H, a.Loc.Ref)})
			x.assumptions["a freshly returned list whose only use is reading .val is unreachable afterwards (SSA def-use check)"] = true
		}
		if sv.K == KTerm {
			sv = x.define(p, "ld", sv)
			if inv := typeInv(v.Type(), sv.T); inv != "" && (sv.S == SVal || (sv.S == SInt && a.Loc.Kind == "slot")) {
				p.assume(inv)
			}
			sv.Go = v.Type()
		}
		x.bind(p, v, sv)
	case token.NOT:
		x.bind(p, v, term("(not "+a.T+")", SBool))
	case token.SUB:
		if a.S == SF64 {
			x.bind(p, v, term("(fneg "+a.T+")", SF64))
		} else {
			r := term("(- "+a.T+")", SInt)
			x.overflowCheck(p, v, r.T)
			x.bind(p, v, r)
		}
	default:
		x.errorf("%s: unsupported unary %s", x.cur.ct.Func, v.Op)
		return false
	}
	return true
}

func (x *Exec) execStore(p *Path, v *ssa.Store) bool {
	a := x.val(p, v.Addr)
	val := x.val(p, v.Val)
	if a.K != KLoc {
		x.errorf("%s: store to %s", x.cur.ct.Func, a.String())
		return false
	}
	l := a.Loc
	switch l.Kind {
	case "lfield":
		if l.Field == "val" {
			x.frameCheck(p, "list", l.Ref, v)
		} else {
			x.frameCheck(p, "ptr", l.Ref, v)
		}
		if l.Field == "val" {
			x.updMulti(p, map[string]string{
				"Larr": fmt.Sprintf("(store (Larr %s) %s %s)", p.H, l.Ref, val.Arr),
				"Loff": fmt.Sprintf("(store (Loff %s) %s %s)", p.H, l.Ref, val.Off),
				"Llen": fmt.Sprintf("(store (Llen %s) %s %s)", p.H, l.Ref, val.Len),
				"Lcap": fmt.Sprintf("(store (Lcap %s) %s %s)", p.H, l.Ref, val.Cap)})
		} else {
			x.store1(p, "Lptr", l.Ref, val.T)
		}
	case "ofield":
		if l.Field == "val" {
			x.frameCheck(p, "obj", l.Ref, v)
		} else {
			x.frameCheck(p, "ptr", l.Ref, v)
		}
		if l.Field == "val" {
			x.store1(p, "Omap", l.Ref, val.T)
		} else {
			x.store1(p, "Optr", l.Ref, val.T)
		}
	case "slot":
		x.frameCheck(p, "arr", l.Arr, v)
		p.pendingExt = "fresh:" + l.Arr
		for _, u := range p.unpub {
			if l.Owner != "" && strings.HasSuffix(u, "|"+l.Owner) {
				// the spine of a container under construction is reachable from nothing that is live
				p.pendingExt = "ghost"
				x.assumptions["a container under construction (allocated here, not yet returned or stored) is unreachable from live values"] = true
			}
		}
		inner := fmt.Sprintf("(store (select (Mem %s) %s) %s %s)", p.H, l.Arr, l.Idx, wrapElem(l.Elem, val.T))
		x.store1(p, "Mem", l.Arr, inner)
	case "cell":
		x.frameCheck(p, "cell", l.Cell, v)
		x.writeCell(p, l, val)
	case "wfield":
		x.errorf("%s: store to a scalar wrapper field (wrappers are modelled as immutable) at %s", x.cur.ct.Func, x.pos(v))
		return false
	default:
		// cells of unmodelled types: remember function values path-locally
		if val.K == KFunc {
			p.cellSV[l.Cell] = val
		}
	}
	return true
}

func (x *Exec) overflowCheck(p *Path, in ssa.Instruction, t string) {
	if x.cur.ct.Flags["wraps"] {
		return
	}
	x.oblig(p, "no-overflow", "(inInt "+t+")", x.cur.ct.Props, x.pos(in))
}

func (x *Exec) execBinOp(p *Path, v *ssa.BinOp) SV {
	a := x.val(p, v.X)
	b := x.val(p, v.Y)
	xt := v.X.Type()
	s := sortOf(xt)
	boolT := func(f string, args ...interface{}) SV { return term(fmt.Sprintf(f, args...), SBool) }
	switch s {
	case SInt, SRefL, SRefO:
		switch v.Op {
		case token.ADD, token.SUB, token.MUL:
			op := map[token.Token]string{token.ADD: "+", token.SUB: "-", token.MUL: "*"}[v.Op]
			t := fmt.Sprintf("(%s %s %s)", op, a.T, b.T)
			if x.cur.ct.Flags["wraps"] {
				if v.Op == token.MUL {
					t = fmt.Sprintf("(wmul %s %s)", a.T, b.T)
				} else {
					t = "(wrap64 " + t + ")"
				}
			} else {
				lo, hi, _ := intRange(xt)
				if lo == "" {
					lo, hi = "MININT", "MAXINT"
				}
				x.oblig(p, "no-overflow", fmt.Sprintf("(and (<= %s %s) (<= %s %s))", lo, t, t, hi), x.cur.ct.Props, x.pos(v))
			}
			return x.define(p, "n", term(t, SInt))
		case token.QUO:
			x.guard(p, fmt.Sprintf("(not (= %s 0))", b.T), "div-zero", v)
			return x.define(p, "n", term(fmt.Sprintf("(godiv %s %s)", a.T, b.T), SInt))
		case token.REM:
			x.guard(p, fmt.Sprintf("(not (= %s 0))", b.T), "div-zero", v)
			return x.define(p, "n", term(fmt.Sprintf("(gomod %s %s)", a.T, b.T), SInt))
		case token.AND:
			// x & (2^k - 1) with a constant mask is x mod 2^k (two's complement, also for negative x)
			if c, ok := v.Y.(*ssa.Const); ok && c.Value != nil {
				if m, ok := constant.Int64Val(constant.ToInt(c.Value)); ok && m > 0 && (m&(m+1)) == 0 {
					return term(fmt.Sprintf("(mod %s %d)", a.T, m+1), SInt)
				}
			}
		case token.SHR:
			// x >> k with a constant k is floor(x / 2^k) (arithmetic shift for signed, logical for unsigned non-negative values)
			if c, ok := v.Y.(*ssa.Const); ok && c.Value != nil {
				if k, ok := constant.Int64Val(constant.ToInt(c.Value)); ok && k >= 0 && k < 62 {
					return x.define(p, "n", term(fmt.Sprintf("(div %s %d)", a.T, int64(1)<<uint(k)), SInt))
				}
			}
		case token.EQL:
			return boolT("(= %s %s)", a.T, b.T)
		case token.NEQ:
			return boolT("(not (= %s %s))", a.T, b.T)
		case token.LSS:
			return boolT("(< %s %s)", a.T, b.T)
		case token.LEQ:
			return boolT("(<= %s %s)", a.T, b.T)
		case token.GTR:
			return boolT("(> %s %s)", a.T, b.T)
		case token.GEQ:
			return boolT("(>= %s %s)", a.T, b.T)
		}
	case SBool:
		switch v.Op {
		case token.EQL:
			return boolT("(= %s %s)", a.T, b.T)
		case token.NEQ:
			return boolT("(not (= %s %s))", a.T, b.T)
		}
	case SStr:
		switch v.Op {
		case token.EQL:
			return boolT("(= %s %s)", a.T, b.T)
		case token.NEQ:
			return boolT("(not (= %s %s))", a.T, b.T)
		case token.ADD:
			return term(fmt.Sprintf("(app %s %s)", a.T, b.T), SStr)
		}
	case SF64:
		switch v.Op {
		case token.ADD:
			return term(fmt.Sprintf("(fadd %s %s)", a.T, b.T), SF64)
		case token.SUB:
			return term(fmt.Sprintf("(fsub %s %s)", a.T, b.T), SF64)
		case token.MUL:
			return term(fmt.Sprintf("(fmul %s %s)", a.T, b.T), SF64)
		case token.QUO:
			return term(fmt.Sprintf("(fdiv %s %s)", a.T, b.T), SF64)
		case token.EQL:
			return boolT("(feq %s %s)", a.T, b.T)
		case token.NEQ:
			return boolT("(not (feq %s %s))", a.T, b.T)
		case token.LSS:
			return boolT("(flt %s %s)", a.T, b.T)
		case token.LEQ:
			return boolT("(fle %s %s)", a.T, b.T)
		case token.GTR:
			return boolT("(flt %s %s)", b.T, a.T)
		case token.GEQ:
			return boolT("(fle %s %s)", b.T, a.T)
		}
	case SVal:
		switch v.Op {
		case token.EQL:
			return boolT("(anyEq %s %s)", a.T, b.T)
		case token.NEQ:
			return boolT("(not (anyEq %s %s))", a.T, b.T)
		}
	}
	x.errorf("%s: unsupported binop %s on %s at %s", x.cur.ct.Func, v.Op, xt, x.pos(v))
	return SV{K: KOpaque}
}

func (x *Exec) makeInterface(p *Path, from types.Type, sv SV) SV {
	out := func(t string) SV { return SV{K: KTerm, T: t, S: SVal} }
	switch ptrToNamed(from) {
	case "list":
		p.assume(fmt.Sprintf("(=> (not (= %s 0)) (plain %s))", sv.T, sv.T))
		return out("(VList " + sv.T + ")")
	case "object":
		p.assume(fmt.Sprintf("(=> (not (= %s 0)) (plain %s))", sv.T, sv.T))
		return out("(VObj " + sv.T + ")")
	case "atString", "atBool", "atInt", "atFloat", "atNil":
		return out(sv.T)
	}
	switch u := from.Underlying().(type) {
	case *types.Basic:
		switch {
		case u.Kind() == types.Int:
			return out("(VInt " + sv.T + ")")
		case u.Info()&types.IsInteger != 0:
			return out(fmt.Sprintf("(VIntK %d %s)", intKind(from), sv.T))
		case u.Kind() == types.Float64:
			return out("(VFloat " + sv.T + ")")
		case u.Kind() == types.Float32:
			return out("(VF32 " + sv.T + ")")
		case u.Info()&types.IsString != 0:
			return out("(VStr " + sv.T + ")")
		case u.Info()&types.IsBoolean != 0:
			return out("(VBool " + sv.T + ")")
		}
	case *types.Slice:
		if sv.K == KSlice {
			return out(fmt.Sprintf("(VSl %d %s %s %s %s)", flavour(u.Elem()), sv.Arr, sv.Off, sv.Len, sv.Cap))
		}
	case *types.Map:
		if sv.K == KMap {
			return out(fmt.Sprintf("(VMp %d %s)", flavour(u.Elem()), sv.T))
		}
	case *types.Interface:
		return sv
	}
	n := x.fresh("other")
	p.declare(n, "Int")
	return out("(VOther " + n + ")")
}

func (x *Exec) execConvert(p *Path, v *ssa.Convert) SV {
	a := x.val(p, v.X)
	from, to := v.X.Type(), v.Type()
	fs, ts := sortOf(from), sortOf(to)
	switch {
	case fs == SInt && ts == SInt:
		lo, hi, ok := intRange(to)
		flo, fhi, _ := intRange(from)
		if !ok || (lo == flo && hi == fhi) {
			return SV{K: KTerm, T: a.T, S: SInt, Go: to}
		}
		// exact range wrap: to = ((x - lo) mod (hi-lo+1)) + lo
		t := fmt.Sprintf("(+ (mod (- %s %s) (+ (- %s %s) 1)) %s)", a.T, lo, hi, lo, lo)
		return x.define(p, "cv", SV{K: KTerm, T: t, S: SInt, Go: to})
	case fs == SInt && ts == SF64:
		return term("(i2f "+a.T+")", SF64)
	case fs == SF64 && ts == SF64:
		fb := from.Underlying().(*types.Basic)
		tb := to.Underlying().(*types.Basic)
		if fb.Kind() == types.Float32 && tb.Kind() == types.Float64 {
			return term("(f32to64 "+a.T+")", SF64)
		}
		return a
	case fs == SInt && ts == SStr:
		return term("(runeStr "+a.T+")", SStr)
	case fs == SStr:
		// []byte(string): opaque byte slice carrying the string
		return SV{K: KOpaque, T: a.T, Go: to}
	case ts == SStr:
		if a.K == KOpaque && a.T != "" {
			return term(a.T, SStr)
		}
		n := x.fresh("bytes2str")
		p.declare(n, "Str")
		return term(n, SStr)
	}
	x.errorf("%s: unsupported conversion %s -> %s at %s", x.cur.ct.Func, from, to, x.pos(v))
	return SV{K: KOpaque}
}

// assertPred returns (predicate that Val t has dynamic type ty, converted value).
func (x *Exec) assertPred(ty types.Type, t string) (string, SV) {
	is := func(c string) string { return fmt.Sprintf("((_ is %s) %s)", c, t) }
	switch {
	case isNamed(ty, "List"):
		return is("VList"), SV{K: KTerm, T: t, S: SVal, Go: ty}
	case isNamed(ty, "Object"):
		return is("VObj"), SV{K: KTerm, T: t, S: SVal, Go: ty}
	case isNamed(ty, "field"):
		return fmt.Sprintf("(isField %s)", t), SV{K: KTerm, T: t, S: SVal, Go: ty}
	}
	switch ptrToNamed(ty) {
	case "list":
		return fmt.Sprintf("(and %s (plain (vlref %s)))", is("VList"), t), term("(vlref "+t+")", SRefL)
	case "object":
		return fmt.Sprintf("(and %s (plain (voref %s)))", is("VObj"), t), term("(voref "+t+")", SRefO)
	case "atString", "atBool", "atInt", "atFloat", "atNil":
		return is(wrapperCtor[ptrToNamed(ty)]), SV{K: KTerm, T: t, S: SVal, Go: ty}
	}
	switch u := ty.Underlying().(type) {
	case *types.Basic:
		switch {
		case u.Kind() == types.Int:
			return is("VInt"), term("(vint "+t+")", SInt)
		case u.Info()&types.IsInteger != 0:
			return fmt.Sprintf("(and %s (= (vkk %s) %d))", is("VIntK"), t, intKind(ty)), SV{K: KTerm, T: "(vkv " + t + ")", S: SInt, Go: ty}
		case u.Kind() == types.Float64:
			return is("VFloat"), term("(vfloat "+t+")", SF64)
		case u.Kind() == types.Float32:
			return is("VF32"), SV{K: KTerm, T: "(vf32 " + t + ")", S: SF64, Go: ty}
		case u.Info()&types.IsString != 0:
			return is("VStr"), term("(vstr "+t+")", SStr)
		case u.Info()&types.IsBoolean != 0:
			return is("VBool"), term("(vbool "+t+")", SBool)
		}
	case *types.Slice:
		// native slices held in interface values are re-based to offset 0 (memory-model symmetry, as for slice parameters)
		return fmt.Sprintf("(and %s (= (slf %s) %d) (= (slo %s) 0))", is("VSl"), t, flavour(u.Elem()), t),
			SV{K: KSlice, Arr: "(sla " + t + ")", Off: "0", Len: "(sll " + t + ")", Cap: "(slc " + t + ")", Elem: u.Elem()}
	case *types.Map:
		return fmt.Sprintf("(and %s (= (mpf %s) %d))", is("VMp"), t, flavour(u.Elem())), SV{K: KMap, T: "(mpi " + t + ")", MapT: u}
	case *types.Interface:
		if u.Empty() {
			return "true", SV{K: KTerm, T: t, S: SVal, Go: ty}
		}
	}
	return "false", SV{K: KOpaque}
}

func (x *Exec) execTypeAssert(p *Path, v *ssa.TypeAssert) bool {
	a := x.val(p, v.X)
	pred, conv := x.assertPred(v.AssertedType, a.T)
	if v.CommaOk {
		ok := x.fresh("ok")
		p.declare(ok, "Bool")
		p.assume(fmt.Sprintf("(= %s %s)", ok, pred))
		// on failure the value is the zero value; only used under ok in this package
		x.bind(p, v, SV{K: KTuple, Tup: []SV{conv, term(ok, SBool)}})
		return true
	}
	x.guard(p, pred, "type-assert", v)
	x.bind(p, v, conv)
	return true
}

func (x *Exec) execSlice(p *Path, v *ssa.Slice) bool {
	a := x.val(p, v.X)
	get := func(e ssa.Value, def string) string {
		if e == nil {
			return def
		}
		return x.val(p, e).T
	}
	switch a.K {
	case KSlice:
		lo := get(v.Low, "0")
		hi := get(v.High, a.Len)
		mx := get(v.Max, a.Cap)
		x.guard(p, fmt.Sprintf("(and (<= 0 %s) (<= %s %s) (<= %s %s) (<= %s %s))", lo, lo, hi, hi, mx, mx, a.Cap), "slice-bounds", v)
		x.bind(p, v, SV{K: KSlice, Arr: a.Arr, Off: fmt.Sprintf("(+ %s %s)", a.Off, lo), Len: fmt.Sprintf("(- %s %s)", hi, lo), Cap: fmt.Sprintf("(- %s %s)", mx, lo), Elem: a.Elem})
	case KArrPtr:
		lo := get(v.Low, "0")
		hi := get(v.High, a.Len)
		x.bind(p, v, SV{K: KSlice, Arr: a.Arr, Off: lo, Len: fmt.Sprintf("(- %s %s)", hi, lo), Cap: fmt.Sprintf("(- %s %s)", a.Len, lo), Elem: a.Elem})
	case KTerm:
		if a.S == SStr {
			lo := get(v.Low, "0")
			hi := get(v.High, "(slen "+a.T+")")
			x.guard(p, fmt.Sprintf("(and (<= 0 %s) (<= %s %s) (<= %s (slen %s)))", lo, lo, hi, hi, a.T), "slice-bounds", v)
			x.bind(p, v, x.define(p, "s", term(fmt.Sprintf("(sub %s %s %s)", a.T, lo, hi), SStr)))
			return true
		}
		fallthrough
	default:
		x.errorf("%s: slice of %s", x.cur.ct.Func, a.String())
		return false
	}
	return true
}

func (x *Exec) execLookup(p *Path, v *ssa.Lookup) bool {
	a := x.val(p, v.X)
	k := x.val(p, v.Index)
	switch {
	case a.K == KMap:
		el := a.MapT.Elem()
		dom := fmt.Sprintf("(select (select (MDom %s) %s) %s)", p.H, a.T, k.T)
		raw := fmt.Sprintf("(select (select (MVal %s) %s) %s)", p.H, a.T, k.T)
		val := unwrapElem(el, fmt.Sprintf("(ite %s %s %s)", dom, raw, zeroElem(el)))
		val = x.define(p, "mv", val)
		if val.K == KTerm && val.S == SVal {
			val.Go = el
			if inv := typeInv(el, val.T); inv != "" {
				p.assume(inv)
			}
		}
		if v.CommaOk {
			x.bind(p, v, SV{K: KTuple, Tup: []SV{val, term(dom, SBool)}})
		} else {
			x.bind(p, v, val)
		}
		return true
	case a.K == KTerm && a.S == SStr:
		x.guard(p, fmt.Sprintf("(and (<= 0 %s) (< %s (slen %s)))", k.T, k.T, a.T), "string-index", v)
		x.bind(p, v, term(fmt.Sprintf("(at %s %s)", a.T, k.T), SInt))
		return true
	}
	x.errorf("%s: lookup on %s", x.cur.ct.Func, a.String())
	return false
}

func (x *Exec) execMapUpdate(p *Path, v *ssa.MapUpdate) bool {
	m := x.val(p, v.Map)
	k := x.val(p, v.Key)
	val := x.val(p, v.Value)
	x.guard(p, fmt.Sprintf("(not (= %s 0))", m.T), "nil-map", v)
	x.frameCheck(p, "map", m.T, v)
	x.mapStore(p, m, k.T, wrapElem(m.MapT.Elem(), val.T))
	return true
}

func (x *Exec) mapStore(p *Path, m SV, key, val string) {
	dom := fmt.Sprintf("(select (select (MDom %s) %s) %s)", p.H, m.T, key)
	x.updMulti(p, map[string]string{
		"MDom":  fmt.Sprintf("(store (MDom %s) %s (store (select (MDom %s) %s) %s true))", p.H, m.T, p.H, m.T, key),
		"MVal":  fmt.Sprintf("(store (MVal %s) %s (store (select (MVal %s) %s) %s %s))", p.H, m.T, p.H, m.T, key, val),
		"MCard": fmt.Sprintf("(store (MCard %s) %s (ite %s (select (MCard %s) %s) (+ (select (MCard %s) %s) 1)))", p.H, m.T, dom, p.H, m.T, p.H, m.T)})
}

func (x *Exec) mapDelete(p *Path, m SV, key string) {
	dom := fmt.Sprintf("(select (select (MDom %s) %s) %s)", p.H, m.T, key)
	x.updMulti(p, map[string]string{
		"MDom":  fmt.Sprintf("(store (MDom %s) %s (store (select (MDom %s) %s) %s false))", p.H, m.T, p.H, m.T, key),
		"MCard": fmt.Sprintf("(store (MCard %s) %s (ite %s (- (select (MCard %s) %s) 1) (select (MCard %s) %s)))", p.H, m.T, dom, p.H, m.T, p.H, m.T)})
}

// execRange: `range m` over a map fixes a ghost enumeration ord[0..n) of the key set
// (arbitrary but one-to-one and onto), so that the loop becomes an indexed loop and
// "for every iteration order" is built in.
func (x *Exec) execRange(p *Path, v *ssa.Range) bool {
	m := x.val(p, v.X)
	if m.K == KTerm && m.S == SStr {
		// `range s` over a string: the iterator cell holds the byte position; each step decodes one rune
		// (runeAt / runeLen are the specification of utf8.DecodeRuneInString at that position)
		c := x.alloc(p, "KCELL", 1)
		x.store1(p, "CInt", c, "0")
		x.bind(p, v, SV{K: KIter, T: m.T, Loc: &Loc{Kind: "cell", Cell: c}, Len: "(slen " + m.T + ")"})
		return true
	}
	if m.K != KMap {
		x.errorf("%s: range over %s not supported at %s", x.cur.ct.Func, v.X.Type(), x.pos(v))
		return false
	}
	ord := x.fresh("ord")
	inv := x.fresh("ordinv")
	n := x.fresh("ordn")
	p.declare(ord, "(Array Int Str)")
	p.declare(inv, "(Array Str Int)")
	p.declare(n, "Int")
	dom := fmt.Sprintf("(select (MDom %s) %s)", p.H, m.T)
	p.assume(fmt.Sprintf("(= %s (select (MCard %s) %s))", n, p.H, m.T))
	p.assume(fmt.Sprintf("(and (<= 0 %s) (<= %s MAXINT))", n, n))
	p.assume(fmt.Sprintf("(forall ((i Int)) (! (=> (and (<= 0 i) (< i %s)) (and (select %s (select %s i)) (= (select %s (select %s i)) i))) :pattern ((select %s i))))", n, dom, ord, inv, ord, ord))
	p.assume(fmt.Sprintf("(forall ((k Str)) (! (=> (select %s k) (and (<= 0 (select %s k)) (< (select %s k) %s) (= (select %s (select %s k)) k))) :pattern ((select %s k))))", dom, inv, inv, n, ord, inv, inv))
	p.assume(fmt.Sprintf("(isEnum %s %s %s)", ord, dom, n))
	c := x.alloc(p, "KCELL", 1)
	x.store1(p, "CInt", c, "0")
	x.bind(p, v, SV{K: KIter, T: m.T, Loc: &Loc{Kind: "cell", Cell: c}, Arr: ord, Off: inv, Len: n, MapT: m.MapT})
	x.assumptions["a map is not modified while it is being ranged over (checked: the loop frame excludes it)"] = true
	return true
}

func (x *Exec) execNext(p *Path, v *ssa.Next) bool {
	it := x.val(p, v.Iter)
	if it.K != KIter {
		x.errorf("%s: next on %s", x.cur.ct.Func, it.String())
		return false
	}
	pos := x.define(p, "pos", term(fmt.Sprintf("(select (CInt %s) %s)", p.H, it.Loc.Cell), SInt))
	ok := x.fresh("more")
	p.declare(ok, "Bool")
	p.assume(fmt.Sprintf("(= %s (< %s %s))", ok, pos.T, it.Len))
	if it.MapT == nil {
		// string iterator
		r := x.define(p, "rune", term(fmt.Sprintf("(runeAt %s %s)", it.T, pos.T), SInt))
		x.store1(p, "CInt", it.Loc.Cell, fmt.Sprintf("(ite %s (+ %s (runeLen %s %s)) %s)", ok, pos.T, it.T, pos.T, pos.T))
		if p.wfKnown != "" {
			p.assume(fmt.Sprintf("(wf %s)", p.H))
			p.wfKnown = p.H
		}
		x.bind(p, v, SV{K: KTuple, Tup: []SV{term(ok, SBool), pos, r}})
		return true
	}
	key := x.define(p, "key", term(fmt.Sprintf("(select %s %s)", it.Arr, pos.T), SStr))
	raw := fmt.Sprintf("(select (select (MVal %s) %s) %s)", p.H, it.T, key.T)
	val := unwrapElem(it.MapT.Elem(), raw)
	val = x.define(p, "mval", val)
	if val.K == KTerm && val.S == SVal {
		val.Go = it.MapT.Elem()
	}
	x.store1(p, "CInt", it.Loc.Cell, fmt.Sprintf("(ite %s (+ %s 1) %s)", ok, pos.T, pos.T))
	if p.wfKnown != "" {
		p.assume(fmt.Sprintf("(wf %s)", p.H)) // iterator cells are not mentioned by wf
		p.wfKnown = p.H
	}
	x.bind(p, v, SV{K: KTuple, Tup: []SV{term(ok, SBool), key, val}})
	return true
}

// execGo: `go f(args)`. The body of the goroutine is executed at the spawn point (sequentialisation).
// This is sound for the final state because (checked) every access of a spawned body to state shared
// with its siblings happens under one mutex and (argued, DESIGN I.9) the guarded effects of different
// goroutines commute (distinct indices / keys); completion is enforced through the WaitGroup tokens:
// Add mints, each spawned body must Done exactly once, Wait requires zero outstanding tokens, and every
// return after a spawn must have passed Wait.
func (x *Exec) execGo(p *Path, v *ssa.Go, work *[]*Path) bool {
	p.spawnedAny = true
	n := len(p.frames)
	x.assumptions["goroutines are executed at their spawn point (sequentialisation justified by the mutex bracket check, commuting effects and the WaitGroup token discipline); schedules are not explored"] = true
	if !x.execCall(p, v, nil, work) {
		return false
	}
	if len(p.frames) > n {
		p.top().spawned = true
	}
	return true
}
// isDeadTemp: addr is &t.val where t = <call>.(*list) and neither the call result nor the asserted
// pointer has any other use than this field read.
func (x *Exec) isDeadTemp(addr ssa.Value) bool {
	fa, ok := addr.(*ssa.FieldAddr)
	if !ok {
		return false
	}
	ta, ok := fa.X.(*ssa.TypeAssert)
	if !ok || ta.CommaOk {
		return false
	}
	call, ok := ta.X.(*ssa.Call)
	if !ok {
		return false
	}
	callee := call.Common().StaticCallee()
	if callee == nil || (callee.Name() != "NewListFrom" && callee.Name() != "NewList") {
		return false
	}
	onlyUse := func(v ssa.Value, user ssa.Instruction) bool {
		refs := v.Referrers()
		if refs == nil {
			return false
		}
		n := 0
		for _, r := range *refs {
			if _, dbg := r.(*ssa.DebugRef); dbg {
				continue
			}
			if r != user {
				return false
			}
			n++
		}
		return n == 1
	}
	if !onlyUse(call, ta) || !onlyUse(ta, fa) {
		return false
	}
	refs := fa.Referrers()
	for _, r := range *refs {
		if _, dbg := r.(*ssa.DebugRef); dbg {
			continue
		}
		if u, ok := r.(*ssa.UnOp); !ok || u.Op != token.MUL {
			return false
		}
	}
	return true
}
