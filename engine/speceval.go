package main

// Translation of spec expressions to SMT terms in a given symbolic state.

import (
	"fmt"
	"go/types"
	"strings"
)

type SpecEnv struct {
	x    *Exec
	spare map[string]SV // locals no clause refers to by name: candidates for a renamed local
	vars map[string]SV
	H    string // current heap term
	H0   string // heap for old(...)
	HN   string // heap whose watermark defines fresh(...)
}

func (e *SpecEnv) with(name string, v SV) *SpecEnv {
	n := *e
	n.vars = map[string]SV{}
	for k, vv := range e.vars {
		n.vars[k] = vv
	}
	n.vars[name] = v
	if _, isParam := e.x.cur.params[name]; !isParam && e.x.cur.refNames != nil && !e.x.cur.refNames[name] && name != "idx" && name != "rangeindex" && name != "ord" && name != "ordn" && name != "ordpos" && name != "result" && !strings.HasPrefix(name, "result") {
		n.spare = map[string]SV{}
		for k, vv := range e.spare {
			n.spare[k] = vv
		}
		n.spare[name] = v
	}
	return &n
}

type specErr string

func (e *SpecEnv) fail(f string, a ...interface{}) { panic(specErr(fmt.Sprintf(f, a...))) }

func quantSort(ty string) (string, Sort) {
	switch ty {
	case "int":
		return "Int", SInt
	case "bool":
		return "Bool", SBool
	case "string", "str":
		return "Str", SStr
	case "val", "any", "field":
		return "Val", SVal
	case "f64", "float64":
		return "F64", SF64
	case "list":
		return "Int", SRefL
	case "obj", "object":
		return "Int", SRefO
	case "heap":
		return "Heap", SUnk
	case "perm":
		return "(Array Int Int)", SPerm
	case "ord":
		return "(Array Int Str)", SOrd
	}
	return "Int", SInt
}

// evalBool evaluates a clause to an SMT Bool term; errors are returned.
func (e *SpecEnv) evalBool(x Expr) (s string, err error) {
	defer func() {
		if r := recover(); r != nil {
			if se, ok := r.(specErr); ok {
				err = fmt.Errorf("%s", string(se))
				return
			}
			panic(r)
		}
	}()
	v := e.eval(x)
	if v.K != KTerm {
		e.fail("clause is not a term")
	}
	return v.T, nil
}

func (e *SpecEnv) evalSV(x Expr) (v SV, err error) {
	defer func() {
		if r := recover(); r != nil {
			if se, ok := r.(specErr); ok {
				err = fmt.Errorf("%s", string(se))
				return
			}
			panic(r)
		}
	}()
	return e.eval(x), nil
}

func (e *SpecEnv) t(x Expr) string {
	v := e.eval(x)
	if v.K != KTerm && v.K != KMap {
		e.fail("expected a term, got %s", v.String())
	}
	return v.T
}

var smtBin = map[string]string{"&&": "and", "||": "or", "==>": "=>", "<==>": "=", "<": "<", "<=": "<=", ">": ">", ">=": ">=", "+": "+", "-": "-", "*": "*"}

func (e *SpecEnv) eval(x Expr) SV {
	switch n := x.(type) {
	case *EInt:
		return term(n.V, SInt)
	case *EStr:
		return term(e.x.strConst(n.V), SStr)
	case *EIdent:
		if v, ok := e.vars[n.Name]; ok {
			return v
		}
		switch n.Name {
		case "true", "false":
			return term(n.Name, SBool)
		case "nil":
			return term("VNil", SVal)
		case "nothing":
			return term("true", SBool)
		case "MaxInt":
			return term("MAXINT", SInt)
		case "MinInt":
			return term("MININT", SInt)
		case "H":
			return term(e.H, SUnk)
		case "H0":
			return term(e.H0, SUnk)
		}
		if preSymsKnown(n.Name) {
			// nullary SMT constant from the prelude (TList, KLIST, VNil, WNil ...)
			return term(n.Name, SUnk)
		}
		// a local the contract names is gone (renamed?): bind it to the only local nothing else refers to
		if len(e.spare) == 1 {
			for k, v := range e.spare {
				e.x.assumptions[fmt.Sprintf("%s: contract name %q bound to the renamed local %q (the only unreferenced loop-carried / unique local)", e.x.cur.ct.Func, n.Name, k)] = true
				return v
			}
		}
		var cands []string
		for k := range e.spare {
			cands = append(cands, k)
		}
		e.fail("unknown identifier %q (rename candidates: %v)", n.Name, cands)
		return SV{}
	case *EOld:
		o := *e
		o.H = e.H0
		return o.eval(n.X)
	case *EUn:
		v := e.eval(n.X)
		if n.Op == "!" {
			return term("(not "+v.T+")", SBool)
		}
		return term("(- "+v.T+")", SInt)
	case *ECond:
		c := e.t(n.C)
		a := e.eval(n.A)
		b := e.eval(n.B)
		return SV{K: KTerm, T: fmt.Sprintf("(ite %s %s %s)", c, a.T, b.T), S: a.S}
	case *EBin:
		l := e.eval(n.L)
		r := e.eval(n.R)
		if l.K != KTerm && l.K != KMap || r.K != KTerm && r.K != KMap {
			e.fail("operator %s on non-terms", n.Op)
		}
		switch n.Op {
		case "==":
			if l.S == SF64 && r.S == SF64 {
				return term(fmt.Sprintf("(feq %s %s)", l.T, r.T), SBool)
			}
			return term(fmt.Sprintf("(= %s %s)", l.T, r.T), SBool)
		case "!=":
			return term(fmt.Sprintf("(not (= %s %s))", l.T, r.T), SBool)
		case "/":
			return term(fmt.Sprintf("(godiv %s %s)", l.T, r.T), SInt)
		case "%":
			return term(fmt.Sprintf("(gomod %s %s)", l.T, r.T), SInt)
		case "<", "<=", ">", ">=":
			if l.S == SF64 {
				switch n.Op {
				case "<":
					return term(fmt.Sprintf("(flt %s %s)", l.T, r.T), SBool)
				case "<=":
					return term(fmt.Sprintf("(fle %s %s)", l.T, r.T), SBool)
				case ">":
					return term(fmt.Sprintf("(flt %s %s)", r.T, l.T), SBool)
				default:
					return term(fmt.Sprintf("(fle %s %s)", r.T, l.T), SBool)
				}
			}
			return term(fmt.Sprintf("(%s %s %s)", n.Op, l.T, r.T), SBool)
		case "+", "-", "*":
			return term(fmt.Sprintf("(%s %s %s)", n.Op, l.T, r.T), SInt)
		default:
			return term(fmt.Sprintf("(%s %s %s)", smtBin[n.Op], l.T, r.T), SBool)
		}
	case *EQuant:
		ne := *e
		ne.vars = map[string]SV{}
		for k, v := range e.vars {
			ne.vars[k] = v
		}
		var decl []string
		for _, qv := range n.Vars {
			ss, so := quantSort(qv.Type)
			nm := "q_" + qv.Name
			decl = append(decl, fmt.Sprintf("(%s %s)", nm, ss))
			ne.vars[qv.Name] = term(nm, so)
		}
		body := ne.t(n.Body)
		q := "exists"
		if n.Forall {
			q = "forall"
		}
		if len(n.Trig) > 0 {
			var pats []string
			for _, tr := range n.Trig {
				var ts []string
				for _, te := range tr {
					ts = append(ts, ne.t(te))
				}
				pats = append(pats, ":pattern ("+strings.Join(ts, " ")+")")
			}
			return term(fmt.Sprintf("(%s (%s) (! %s %s))", q, strings.Join(decl, " "), body, strings.Join(pats, " ")), SBool)
		}
		return term(fmt.Sprintf("(%s (%s) %s)", q, strings.Join(decl, " "), body), SBool)
	case *ESel:
		v := e.eval(n.X)
		return e.sel(v, n.Field)
	case *EIndex:
		v := e.eval(n.X)
		i := e.t(n.I)
		switch {
		case v.K == KSlice:
			el := fmt.Sprintf("(select (select (Mem %s) %s) (+ %s %s))", e.H, v.Arr, v.Off, i)
			if v.Off == "0" {
				el = fmt.Sprintf("(select (select (Mem %s) %s) %s)", e.H, v.Arr, i)
			}
			return unwrapElem(v.Elem, el)
		case v.K == KMap:
			el := fmt.Sprintf("(select (select (MVal %s) %s) %s)", e.H, v.T, i)
			if v.MapT != nil {
				return unwrapElem(v.MapT.Elem(), el)
			}
			return term(el, SVal)
		case v.K == KTerm && v.S == SStr:
			return term(fmt.Sprintf("(at %s %s)", v.T, i), SInt)
		case v.K == KTerm && v.S == SPerm:
			return term(fmt.Sprintf("(select %s %s)", v.T, i), SInt)
		case v.K == KTerm && v.S == SOrd:
			return term(fmt.Sprintf("(select %s %s)", v.T, i), SStr)
		case v.K == KTerm && v.S == SOrdInv:
			return term(fmt.Sprintf("(select %s %s)", v.T, i), SInt)
		}
		e.fail("cannot index %s", v.String())
	case *ESlice:
		v := e.eval(n.X)
		if v.K == KTerm && v.S == SStr {
			lo := "0"
			if n.Lo != nil {
				lo = e.t(n.Lo)
			}
			hi := "(slen " + v.T + ")"
			if n.Hi != nil {
				hi = e.t(n.Hi)
			}
			return term(fmt.Sprintf("(sub %s %s %s)", v.T, lo, hi), SStr)
		}
		e.fail("cannot slice %s", v.String())
	case *ECall:
		return e.call(n)
	}
	e.fail("unsupported expression %T", x)
	return SV{}
}

func (e *SpecEnv) sel(v SV, f string) SV {
	if v.K == KTerm && v.S == SRefL {
		switch f {
		case "val":
			return SV{K: KSlice,
				Arr:  fmt.Sprintf("(select (Larr %s) %s)", e.H, v.T),
				Off:  "0", // spec-level element k is Mem[arr][k]; invL pins the real offset to 0
				T:    fmt.Sprintf("(select (Loff %s) %s)", e.H, v.T),
				Len:  fmt.Sprintf("(select (Llen %s) %s)", e.H, v.T),
				Cap:  fmt.Sprintf("(select (Lcap %s) %s)", e.H, v.T),
				Elem: e.x.fieldType}
		case "ptr":
			return term(fmt.Sprintf("(select (Lptr %s) %s)", e.H, v.T), SVal)
		}
	}
	if v.K == KTerm && v.S == SRefO {
		switch f {
		case "val":
			return SV{K: KMap, T: fmt.Sprintf("(select (Omap %s) %s)", e.H, v.T), MapT: e.x.fieldMapType}
		case "ptr":
			return term(fmt.Sprintf("(select (Optr %s) %s)", e.H, v.T), SVal)
		}
	}
	if v.K == KTerm && v.S == SVal && f == "val" {
		// wrapper payload; sort depends on use, leave to the caller via explicit selector functions
		e.fail("use wstr/wint/wbool/wfloat on wrapper values")
	}
	e.fail("cannot select .%s on %s", f, v.String())
	return SV{}
}

func (e *SpecEnv) call(n *ECall) SV {
	arg := func(i int) SV { return e.eval(n.Args[i]) }
	switch n.Fn {
	case "len":
		v := arg(0)
		switch {
		case v.K == KSlice:
			return term(v.Len, SInt)
		case v.K == KMap:
			return term(fmt.Sprintf("(select (MCard %s) %s)", e.H, v.T), SInt)
		case v.K == KTerm && v.S == SStr:
			return term("(slen "+v.T+")", SInt)
		}
		e.fail("len of %s", v.String())
	case "cap":
		v := arg(0)
		if v.K == KSlice {
			return term(v.Cap, SInt)
		}
		e.fail("cap of %s", v.String())
	case "arr":
		v := arg(0)
		if v.K == KSlice || v.K == KArrPtr {
			return term(v.Arr, SInt)
		}
		e.fail("arr of %s", v.String())
	case "off":
		v := arg(0)
		if v.K == KSlice {
			if v.Off == "0" && v.T != "" {
				return term(v.T, SInt)
			}
			return term(v.Off, SInt)
		}
		e.fail("off of %s", v.String())
	case "dom":
		// dom(m): key-set array of map m
		v := arg(0)
		if v.K == KMap {
			return term(fmt.Sprintf("(select (MDom %s) %s)", e.H, v.T), SUnk)
		}
		e.fail("dom of %s", v.String())
	case "vals":
		// vals(m): value array of map m
		v := arg(0)
		if v.K == KMap {
			return term(fmt.Sprintf("(select (MVal %s) %s)", e.H, v.T), SUnk)
		}
		e.fail("vals of %s", v.String())
	case "mapid":
		v := arg(0)
		if v.K == KMap {
			return term(v.T, SInt)
		}
		e.fail("mapid of %s", v.String())
	case "has":
		// has(m, k): key k present in map m
		v := arg(0)
		if v.K == KMap {
			return term(fmt.Sprintf("(select (select (MDom %s) %s) %s)", e.H, v.T, e.t(n.Args[1])), SBool)
		}
		e.fail("has on %s", v.String())
	case "fresh":
		return term(fmt.Sprintf("(>= %s (next %s))", e.t(n.Args[0]), e.HN), SBool)
	case "list":
		v := arg(0)
		return term(v.T, SRefL)
	case "obj":
		v := arg(0)
		return term(v.T, SRefO)
	case "deref":
		// deref(p): content of a cell pointer
		v := arg(0)
		if v.K == KLoc && (v.Loc.Kind == "cell" || v.Loc.Kind == "builder") {
			return e.x.readCell(e.H, v.Loc)
		}
		e.fail("deref of %s", v.String())
	case "cellid":
		v := arg(0)
		if v.K == KLoc && (v.Loc.Kind == "cell" || v.Loc.Kind == "builder") {
			return term(v.Loc.Cell, SInt)
		}
		e.fail("cellid of %s", v.String())
	case "mem":
		// mem(s): the backing array of slice s as an SMT array
		v := arg(0)
		if v.K == KSlice || v.K == KArrPtr {
			return term(fmt.Sprintf("(select (Mem %s) %s)", e.H, v.Arr), SUnk)
		}
		e.fail("mem of %s", v.String())
	case "trlen":
		return term(fmt.Sprintf("(TrLen %s)", e.H), SInt)
	case "trA":
		return term(fmt.Sprintf("(select (TrA %s) %s)", e.H, e.t(n.Args[0])), SVal)
	case "trB":
		return term(fmt.Sprintf("(select (TrB %s) %s)", e.H, e.t(n.Args[0])), SVal)
	case "mark":
		// allocation watermark of the pre-state (everything at or above it is fresh)
		return term(fmt.Sprintf("(next %s)", e.HN), SInt)
	case "same":
		// exact identity (for floats: the identical value, not Go's ==)
		return term(fmt.Sprintf("(= %s %s)", e.t(n.Args[0]), e.t(n.Args[1])), SBool)
	case "kindAt":
		return term(fmt.Sprintf("(select (Kind %s) %s)", e.H, e.t(n.Args[0])), SInt)
	case "allocated":
		return term(fmt.Sprintf("(and (< 0 %s) (< %s (next %s)))", e.t(n.Args[0]), e.t(n.Args[0]), e.H), SBool)
	case "unchanged":
		// unchanged(): the whole heap equals the old heap
		return term(fmt.Sprintf("(= %s %s)", e.H, e.H0), SBool)
	case "float":
		return term(e.x.floatConst(n.Args[0]), SF64)
	}
	var args []string
	if e.x.heapFns[n.Fn] {
		args = append(args, e.H)
	}
	for i := range n.Args {
		a := arg(i)
		switch a.K {
		case KTerm, KMap:
			args = append(args, a.T)
		case KSlice:
			args = append(args, a.Arr, a.Off, a.Len, a.Cap)
		default:
			e.fail("cannot pass %s to %s", a.String(), n.Fn)
		}
	}
	rs := SUnk
	if s, ok := e.x.fnSort[n.Fn]; ok {
		rs = s
	}
	if len(args) == 0 {
		return term(n.Fn, rs)
	}
	return term("("+n.Fn+" "+strings.Join(args, " ")+")", rs)
}

var _ = types.Typ

func preSymsKnown(name string) bool {
	if preSyms == nil {
		return true
	}
	return preSyms[name]
}
