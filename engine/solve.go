package main

// SMT-LIB emission and the solver portfolio.

import (
	"bytes"
	"context"
	"embed"
	"fmt"
	"os"
	"os/exec"
	"path/filepath"
	"regexp"
	"sort"
	"strings"
	"sync"
	"time"
)

//go:embed prelude/*.smt2
var preludeFS embed.FS

func loadPrelude() string {
	ents, _ := preludeFS.ReadDir("prelude")
	var names []string
	for _, e := range ents {
		names = append(names, e.Name())
	}
	sort.Strings(names)
	var sb strings.Builder
	for _, n := range names {
		b, _ := preludeFS.ReadFile("prelude/" + n)
		sb.Write(b)
		sb.WriteString("\n")
	}
	full, lemmas := expandLemmas(sb.String())
	preludeLemmas = lemmas
	return full
}

// lemmas of the prelude (set by loadPrelude)
var preludeLemmas []*Lemma

var reHeapFn = regexp.MustCompile(`\((?:define-fun|declare-fun|define-fun-rec)\s+([A-Za-z_][A-Za-z0-9_.]*)\s+\(\s*(?:\(h Heap\)|Heap)`)
var reFnDecl = regexp.MustCompile(`\((?:define-fun|define-fun-rec)\s+([A-Za-z_][A-Za-z0-9_.]*)\s+\(((?:\([^()]*\)\s*)*)\)\s+([A-Za-z0-9]+)`)
var reFnDecl2 = regexp.MustCompile(`\(declare-fun\s+([A-Za-z_][A-Za-z0-9_.]*)\s+\(([^()]*)\)\s+([A-Za-z0-9]+)\)`)

func scanPrelude(pre string) (heapFns map[string]bool, fnSort map[string]Sort) {
	heapFns = map[string]bool{}
	fnSort = map[string]Sort{}
	for _, m := range reHeapFn.FindAllStringSubmatch(pre, -1) {
		heapFns[m[1]] = true
	}
	toSort := func(s string) Sort {
		switch s {
		case "Int":
			return SInt
		case "Bool":
			return SBool
		case "Str":
			return SStr
		case "F64":
			return SF64
		case "Val":
			return SVal
		}
		return SUnk
	}
	for _, m := range reFnDecl.FindAllStringSubmatch(pre, -1) {
		fnSort[m[1]] = toSort(m[3])
	}
	for _, m := range reFnDecl2.FindAllStringSubmatch(pre, -1) {
		fnSort[m[1]] = toSort(m[3])
	}
	fnSort["sortPerm"] = SPerm
	fnSort["sortInv"] = SPerm
	return
}

func (x *Exec) stringDecls() string {
	var sb strings.Builder
	for i, s := range x.strList {
		n := fmt.Sprintf("strk_%d", i)
		fmt.Fprintf(&sb, "(declare-const %s Str)\n(assert (= (slen %s) %d))\n", n, n, len(s))
		for j := 0; j < len(s); j++ {
			fmt.Fprintf(&sb, "(assert (= (at %s %d) %d))\n", n, j, s[j])
		}
	}
	return sb.String()
}

type solverSpec struct {
	name string
	cmd  []string
	hdr  string
}

var solverSeed int

func solvers(timeoutS int) []solverSpec {
	z3opts := "(set-option :smt.mbqi false)\n(set-option :smt.auto_config false)\n(set-option :auto_config false)\n"
	if solverSeed != 0 {
		z3opts += fmt.Sprintf("(set-option :smt.random_seed %d)\n(set-option :sat.random_seed %d)\n", solverSeed%100000, solverSeed%100000)
	}
	return []solverSpec{
		{"z3-new", []string{"z3-new", "-in", fmt.Sprintf("-T:%d", timeoutS)}, z3opts},
		{"z3", []string{"z3", "-in", fmt.Sprintf("-T:%d", timeoutS)}, z3opts},
		{"cvc5", []string{"cvc5", "--lang=smt2", fmt.Sprintf("--tlimit=%d", timeoutS*1000)}, "(set-logic ALL)\n"},
	}
}

func runSolver(s solverSpec, query string, timeoutS int) (string, string, int64) {
	return runSolverCtx(context.Background(), s, query, timeoutS)
}

func runSolverCtx(parent context.Context, s solverSpec, query string, timeoutS int) (string, string, int64) {
	ctx, cancel := context.WithTimeout(parent, time.Duration(timeoutS+2)*time.Second)
	defer cancel()
	cmd := exec.CommandContext(ctx, s.cmd[0], s.cmd[1:]...)
	cmd.Stdin = strings.NewReader(s.hdr + query)
	var out bytes.Buffer
	cmd.Stdout = &out
	cmd.Stderr = &out
	t0 := time.Now()
	cmd.Run()
	ms := time.Since(t0).Milliseconds()
	o := out.String()
	for _, ln := range strings.Split(o, "\n") {
		ln = strings.TrimSpace(ln)
		switch ln {
		case "unsat", "sat", "unknown":
			return ln, o, ms
		}
		if ln != "" && !strings.HasPrefix(ln, "WARNING") && !strings.HasPrefix(ln, "(warning") {
			break
		}
	}
	if strings.Contains(o, "timeout") || ctx.Err() != nil {
		return "timeout", o, ms
	}
	return "error", o, ms
}

func (x *Exec) queryText(o *Oblig, prelude string) string {
	if strings.HasPrefix(o.Func, "lemma:") {
		for _, lm := range preludeLemmas {
			if "lemma:"+lm.Name == o.Func {
				prelude = lm.Before // only what precedes the lemma: no circularity
			}
		}
	}
	var sb strings.Builder
	var body strings.Builder
	for _, l := range o.Ctx {
		body.WriteString(l)
		body.WriteString("\n")
	}
	body.WriteString(o.Goal)
	sd := x.stringDecls()
	body.WriteString(sd)
	if os.Getenv("VCGO_NOPRUNE") != "" {
		sb.WriteString(prelude)
	} else {
		sb.WriteString(prunedPrelude(prelude, body.String()))
	}
	sb.WriteString(sd)
	sb.WriteString("; ---- obligation " + o.Name + "  path " + o.Path + "\n")
	for _, l := range o.Ctx {
		sb.WriteString(l)
		sb.WriteString("\n")
	}
	if o.Kind == "goal" || o.Kind == "canary" {
		sb.WriteString("(assert (not " + o.Goal + "))\n")
	}
	sb.WriteString("(check-sat)\n")
	return sb.String()
}

type solveCfg struct {
	timeoutS int
	jobs     int
	all      bool   // run every solver (thorough) and cross-check
	dumpDir  string // write failed queries here
	seed     int
}

func (x *Exec) solveAll(obls []*Oblig, cfg solveCfg) {
	prelude := loadPrelude()
	initPrelude(prelude)
	solverSeed = cfg.seed
	var wg sync.WaitGroup
	ch := make(chan *Oblig)
	for w := 0; w < cfg.jobs; w++ {
		wg.Add(1)
		go func() {
			defer wg.Done()
			for o := range ch {
				x.solveOne(o, prelude, cfg)
			}
		}()
	}
	for _, o := range obls {
		ch <- o
	}
	close(ch)
	wg.Wait()
	// calm retry: an obligation on which every solver merely ran out of time (no solver answered `unknown`) may be
	// a victim of machine load (several checks running side by side); a few of them are retried two at a time
	// with three times the budget once the parallel phase is over. A proof found then is a proof.
	var late []*Oblig
	for _, o := range obls {
		if o.Kind == "goal" && o.Status == "failed" && !strings.Contains(o.Output, "disagreement") {
			z3timeouts, z3other := 0, 0
			for _, part := range strings.Split(o.Output, " | ") {
				if strings.HasPrefix(part, "z3") {
					if strings.Contains(part, "timeout") {
						z3timeouts++
					} else {
						z3other++
					}
				}
			}
			if z3timeouts > 0 && z3other == 0 {
				late = append(late, o)
			}
		}
	}
	if len(late) > 0 && len(late) <= 6 && !cfg.all {
		ch2 := make(chan *Oblig)
		var wg2 sync.WaitGroup
		for w := 0; w < 2; w++ {
			wg2.Add(1)
			go func() {
				defer wg2.Done()
				for o := range ch2 {
					q := x.queryText(o, prelude)
					for _, sv := range solvers(cfg.timeoutS * 3)[:2] {
						r, _, ms := runSolver(sv, q, cfg.timeoutS*3)
						o.Ms += ms
						if r == "unsat" {
							o.Status, o.Backend, o.Output = "proved", sv.name+"(calm retry)", ""
							break
						}
					}
				}
			}()
		}
		for _, o := range late {
			ch2 <- o
		}
		close(ch2)
		wg2.Wait()
	}
}

func (x *Exec) solveOne(o *Oblig, prelude string, cfg solveCfg) {
	q := x.queryText(o, prelude)
	if o.Kind == "canary" {
		// must NOT be provable: one quick attempt with the first solver
		// (every solver of the portfolio: cvc5 constructs witnesses z3's E-matching never tries, and it was
		// cvc5 that exposed an inconsistent, unguarded version of the prelude)
		o.Status = "failed"
		for _, sv := range []solverSpec{solvers(3)[0], solvers(3)[2]} {
			r, _, ms := runSolver(sv, q, 3)
			o.Ms += ms
			if r == "unsat" {
				o.Status = "proved"
				o.Backend = sv.name
			}
		}
		return
	}
	if o.Kind == "goal" && (o.Goal == "true") {
		o.Status, o.Backend = "proved", "trivial"
		return
	}
	ss := solvers(cfg.timeoutS)
	var outs []string
	if o.Kind == "feasible" {
		r, out, ms := runSolver(solvers(5)[0], q, 5)
		o.Ms += ms
		_ = out
		if r == "unsat" {
			o.Status, o.Backend = "infeasible", "z3-new"
			if cfg.dumpDir != "" {
				os.MkdirAll(cfg.dumpDir, 0o755)
				os.WriteFile(filepath.Join(cfg.dumpDir, "INFEASIBLE_"+sanitizeFile(o.Name)+"__"+sanitizeFile(o.Path)+".smt2"), []byte(ss[0].hdr+q), 0o644)
			}
		} else {
			o.Status, o.Backend = "feasible", "z3-new"
		}
		return
	}
	if !cfg.all {
		// stage 1: a short attempt with the fastest solver
		r, out, ms := runSolver(solvers(2)[0], q, 2)
		o.Ms += ms
		if r == "unsat" {
			o.Status, o.Backend = "proved", "z3-new"
			return
		}
		outs = append(outs, "z3-new(2s): "+strings.TrimSpace(out))
		// stage 2: race the whole portfolio, first `unsat` wins
		type res struct {
			name, r, out string
			ms       int64
		}
		ch := make(chan res, len(ss))
		ctx, cancel := context.WithCancel(context.Background())
		for _, s := range ss {
			go func(s solverSpec) {
				r, out, ms := runSolverCtx(ctx, s, q, cfg.timeoutS)
				ch <- res{s.name, r, out, ms}
			}(s)
		}
		for range ss {
			rr := <-ch
			if rr.r == "unsat" && o.Status != "proved" {
				o.Status, o.Backend = "proved", rr.name
				o.Ms += rr.ms
				cancel()
			} else if o.Status != "proved" {
				outs = append(outs, rr.name+": "+strings.TrimSpace(rr.out))
			}
		}
		cancel()
	} else {
		for i, s := range ss {
			t := cfg.timeoutS
			if i == 2 {
				t = 10 // cvc5: cross-check only; its timeouts are neutral
			} else if i == 1 && o.Status == "proved" {
				t = cfg.timeoutS / 3
			}
			r, out, ms := runSolver(solvers(t)[i], q, t)
			o.Ms += ms
			outs = append(outs, s.name+": "+strings.TrimSpace(out))
			if r == "unsat" {
				if o.Status == "" {
					o.Status, o.Backend = "proved", s.name
				}
				continue
			}
			if r == "sat" && o.Status == "proved" {
				o.Status = "failed"
				o.Output = "solver disagreement: " + strings.Join(outs, " | ")
				break
			}
		}
	}
	if o.Status != "proved" && !cfg.all && o.Kind == "goal" {
		// stage 3: a proof found under any solver seed is a proof; retry the two z3 versions with other seeds
		for _, sd := range []int{7} {
			for _, base := range solvers(cfg.timeoutS)[:2] {
				sp := base
				sp.hdr += fmt.Sprintf("(set-option :smt.random_seed %d)\n(set-option :sat.random_seed %d)\n", sd, sd)
				r, _, ms := runSolver(sp, q, cfg.timeoutS)
				o.Ms += ms
				if r == "unsat" {
					o.Status, o.Backend = "proved", fmt.Sprintf("%s(seed %d)", sp.name, sd)
					break
				}
			}
			if o.Status == "proved" {
				break
			}
		}
	}
	if o.Status == "proved" {
		if cfg.dumpDir != "" && os.Getenv("VCGO_DUMPALL") != "" {
			os.MkdirAll(cfg.dumpDir, 0o755)
			os.WriteFile(filepath.Join(cfg.dumpDir, "PROVED_"+sanitizeFile(o.Name)+"__"+sanitizeFile(o.Path)+".smt2"), []byte(ss[0].hdr+q), 0o644)
		}
		return
	}
	o.Status = "failed"
	o.Output = strings.Join(outs, " | ")
	if len(o.Output) > 600 {
		o.Output = o.Output[:600]
	}
	if cfg.dumpDir != "" {
		os.MkdirAll(cfg.dumpDir, 0o755)
		fn := filepath.Join(cfg.dumpDir, sanitizeFile(o.Name)+"__"+sanitizeFile(o.Path)+".smt2")
		os.WriteFile(fn, []byte(ss[0].hdr+q), 0o644)
	}
}

func sanitizeFile(s string) string {
	r := strings.NewReplacer("/", "_", "(", "", ")", "", "*", "", " ", "_", "#", "-", ">", ".", ":", "-", "$", "_")
	s = r.Replace(s)
	if len(s) > 120 {
		s = s[:120]
	}
	return s
}

// ---------------------------------------------------------------------------
// Prelude pruning: only the declarations and axioms relevant to a query are sent to the solver.
// Dropping an axiom can only lose proving power, never soundness.

type preItem struct {
	text    string
	kind    string   // "decl" | "axiom" | "other"
	defines []string // symbols declared / defined by this item
	uses    map[string]bool
	pats    map[string]bool // symbols in :pattern annotations (axioms)
}

var preItems []*preItem
var preSyms map[string]bool
var reSym = regexp.MustCompile(`[A-Za-z_][A-Za-z0-9_.]*`)
var rePat = regexp.MustCompile(`:pattern\s*\(((?:[^()]|\([^()]*\)|\((?:[^()]|\([^()]*\))*\))*)\)`)

func splitTop(src string) []string {
	var out []string
	depth, start := 0, -1
	inComment := false
	for i := 0; i < len(src); i++ {
		c := src[i]
		if inComment {
			if c == '\n' {
				inComment = false
			}
			continue
		}
		switch c {
		case ';':
			inComment = true
		case '(':
			if depth == 0 {
				start = i
			}
			depth++
		case ')':
			depth--
			if depth == 0 && start >= 0 {
				out = append(out, src[start:i+1])
				start = -1
			}
		}
	}
	return out
}

func stripComments(s string) string {
	var sb strings.Builder
	for _, ln := range strings.Split(s, "\n") {
		if i := strings.Index(ln, ";"); i >= 0 {
			ln = ln[:i]
		}
		sb.WriteString(ln)
		sb.WriteString("\n")
	}
	return sb.String()
}

var mainPrelude string

func initPrelude(pre string) {
	if preItems != nil {
		return
	}
	mainPrelude = pre
	ix := buildIndex(pre)
	preItems, preSyms = ix.items, ix.syms
}

func buildIndex(pre string) *preIdx {
	var preItems []*preItem
	var preSyms map[string]bool
	preSyms = map[string]bool{}
	reDecl := regexp.MustCompile(`^\((declare-fun|define-fun|declare-const|declare-sort)\s+([A-Za-z_][A-Za-z0-9_.]*)`)
	reCtor := regexp.MustCompile(`\(([A-Za-z_][A-Za-z0-9_]*)`)
	for _, t := range splitTop(pre) {
		t = strings.TrimSpace(stripComments(t))
		it := &preItem{text: t, kind: "other", uses: map[string]bool{}, pats: map[string]bool{}}
		if m := reDecl.FindStringSubmatch(t); m != nil {
			it.kind = "decl"
			it.defines = []string{m[2]}
		} else if strings.HasPrefix(t, "(declare-datatypes") {
			it.kind = "decl"
			for _, m := range reCtor.FindAllStringSubmatch(t, -1) {
				it.defines = append(it.defines, m[1])
			}
			it.defines = append(it.defines, "__always")
		} else if strings.HasPrefix(t, "(assert") {
			it.kind = "axiom"
		}
		for _, d := range it.defines {
			preSyms[d] = true
		}
		preItems = append(preItems, it)
	}
	for _, it := range preItems {
		for _, sy := range reSym.FindAllString(it.text, -1) {
			if preSyms[sy] {
				it.uses[sy] = true
			}
		}
		if it.kind == "axiom" {
			for _, m := range rePat.FindAllStringSubmatch(it.text, -1) {
				for _, sy := range reSym.FindAllString(m[1], -1) {
					if preSyms[sy] {
						it.pats[sy] = true
					}
				}
			}
		}
	}
	return &preIdx{preItems, preSyms}
}

var alwaysSyms = []string{"Val", "Heap", "Str", "F64", "mkHeap", "VNil", "select", "store"}

// prunedPrelude returns the part of the prelude relevant to body.
// indices of prelude texts other than the main one (lemma proofs use the prefix preceding the lemma)
var altIndexMu sync.Mutex
var altIndex = map[string]*preIdx{}

type preIdx struct {
	items []*preItem
	syms  map[string]bool
}

func prunedPrelude(pre, body string) string {
	initPrelude(pre)
	preItems, preSyms := preItems, preSyms // the main index, unless another prelude text is given
	if pre != mainPrelude {
		altIndexMu.Lock()
		ix := altIndex[pre]
		if ix == nil {
			ix = buildIndex(pre)
			altIndex[pre] = ix
		}
		altIndexMu.Unlock()
		preItems, preSyms = ix.items, ix.syms
	}
	used := map[string]bool{}
	for _, sy := range reSym.FindAllString(body, -1) {
		if preSyms[sy] {
			used[sy] = true
		}
	}
	// datatype constructors / selectors always available
	include := make([]bool, len(preItems))
	for changed := true; changed; {
		changed = false
		for i, it := range preItems {
			if include[i] {
				continue
			}
			take := false
			switch it.kind {
			case "decl":
				for _, d := range it.defines {
					if used[d] || d == "__always" {
						take = true
					}
				}
			case "axiom":
				if len(it.pats) > 0 {
					take = true
					// every alternative pattern set is merged; require that at least the symbols of one
					// full pattern are present: approximated by requiring any pattern symbol that is not a
					// datatype constructor / selector to be used
					any := false
					for sy := range it.pats {
						if used[sy] {
							any = true
						}
					}
					take = any
				} else {
					for sy := range it.uses {
						if used[sy] {
							take = true
						}
					}
				}
			default:
				take = false
			}
			if take {
				include[i] = true
				changed = true
				for sy := range it.uses {
					if !used[sy] {
						used[sy] = true
					}
				}
			}
		}
	}
	var sb strings.Builder
	for i, it := range preItems {
		if include[i] {
			sb.WriteString(it.text)
			sb.WriteString("\n")
		}
	}
	return sb.String()
}
