package main

// Structural obligations checked on the SSA / types of the package (no solver involved).

import (
	"fmt"
	"go/types"
	"sort"
	"strings"

	"golang.org/x/tools/go/ssa"
)

type structOb struct {
	name  string
	props []string
	ok    bool
	why   string
}

var derivingOps = map[string]bool{"Clone": true, "Concat": true, "SubList": true, "MapAsync": true, "Merge": true, "Pluck": true, "Keys": true, "Values": true, "Ego": true}

func (x *Exec) structuralObligations() []structOb {
	var out []structOb
	allProps := []string{"C01", "C02", "C03", "C04", "C05", "C06", "C07", "C08", "C09", "C10", "C11", "C12", "C13", "C14", "C15", "C16", "C17", "C18", "C19", "C20"}
	// 1. verified subset: constructs the engine does not model must not appear
	var bad []string
	for fn := range x.allFuncs() {
		if fn.Recover != nil {
			bad = append(bad, fnKey(fn)+": defer/recover")
		}
		for _, b := range fn.Blocks {
			for _, in := range b.Instrs {
				switch v := in.(type) {
				case *ssa.Defer, *ssa.Select, *ssa.RunDefers, *ssa.Send:
					bad = append(bad, fmt.Sprintf("%s: %T", fnKey(fn), in))
				case *ssa.Go:
					if !strings.Contains(fn.Name(), "Async") {
						bad = append(bad, fnKey(fn)+": go statement outside the async methods")
					}
				case ssa.CallInstruction:
					if c := v.Common().StaticCallee(); c != nil && c.Pkg != nil {
						switch c.Pkg.Pkg.Path() {
						case "unsafe", "reflect":
							bad = append(bad, fnKey(fn)+": call into "+c.Pkg.Pkg.Path())
						}
					}
				}
			}
		}
	}
	sort.Strings(bad)
	out = append(out, structOb{"pkg/subset", allProps, len(bad) == 0, strings.Join(bad, "; ")})
	// 2. scalar wrappers are immutable: no store to atX.val outside newX (justifies modelling them by value)
	bad = nil
	for fn := range x.allFuncs() {
		if strings.HasPrefix(fn.Name(), "new") {
			continue
		}
		for _, b := range fn.Blocks {
			for _, in := range b.Instrs {
				if st, ok := in.(*ssa.Store); ok {
					if fa, ok := st.Addr.(*ssa.FieldAddr); ok {
						if w := ptrToNamed(fa.X.Type()); strings.HasPrefix(w, "at") {
							bad = append(bad, fnKey(fn)+" stores to "+w)
						}
					}
				}
			}
		}
	}
	out = append(out, structOb{"pkg/wrappers-immutable", allProps, len(bad) == 0, strings.Join(bad, "; ")})
	// 2b. the scalar-wrapper constructors are modelled as the term constructors WStr/WBool/WInt/WFloat/WNil:
	//     each body must be exactly "allocate the box, store the parameter into its only field, return the box"
	bad = nil
	for _, name := range []string{"newString", "newBool", "newInt", "newFloat", "newNil"} {
		fn := x.pkg.Func(name)
		if fn == nil {
			bad = append(bad, name+": not found")
			continue
		}
		if why := plainBoxConstructor(fn); why != "" {
			bad = append(bad, name+": "+why)
		}
	}
	out = append(out, structOb{"pkg/wrapper-constructors", allProps, len(bad) == 0, strings.Join(bad, "; ")})
	// 3. no package-level variables (determinism of parsing, no hidden shared state for concurrent readers)
	bad = nil
	for name, m := range x.pkg.Members {
		if g, ok := m.(*ssa.Global); ok && !strings.HasPrefix(name, "init$") {
			bad = append(bad, "global "+g.Name())
		}
	}
	sort.Strings(bad)
	out = append(out, structOb{"pkg/no-mutable-globals", []string{"C04", "C15", "C13"}, len(bad) == 0, strings.Join(bad, "; ")})
	// 4. the parse functions range over no map (their outcome is a function of the input)
	bad = nil
	for fn := range x.allFuncs() {
		k := fnKey(fn)
		if !strings.HasPrefix(strings.ToLower(k), "parse") || k == "parseVal" {
			continue
		}
		for _, b := range fn.Blocks {
			for _, in := range b.Instrs {
				if r, ok := in.(*ssa.Range); ok {
					if _, isMap := r.X.Type().Underlying().(*types.Map); isMap {
						bad = append(bad, k+" ranges over a map")
					}
				}
			}
		}
	}
	out = append(out, structOb{"pkg/parse-deterministic", []string{"C04"}, len(bad) == 0, strings.Join(bad, "; ")})
	// 5. C19 coverage: every method of List / Object that returns the interface itself and is not a
	//    deriving operation has a contract with a `fluent` postcondition
	bad = nil
	for _, iname := range []string{"List", "Object"} {
		obj := x.pkg.Pkg.Scope().Lookup(iname)
		if obj == nil {
			continue
		}
		it, ok := obj.Type().Underlying().(*types.Interface)
		if !ok {
			continue
		}
		impl := map[string]string{"List": "(*list).", "Object": "(*object)."}[iname]
		for i := 0; i < it.NumMethods(); i++ {
			m := it.Method(i)
			sig := m.Type().(*types.Signature)
			if sig.Results().Len() != 1 || !types.Identical(sig.Results().At(0).Type(), obj.Type()) {
				continue
			}
			if derivingOps[m.Name()] || strings.HasPrefix(m.Name(), "Map") || strings.HasPrefix(m.Name(), "Filter") || strings.HasPrefix(m.Name(), "Get") {
				continue
			}
			ct := x.cf.ByFunc[impl+m.Name()]
			has := false
			if ct != nil {
				for _, e := range ct.Ensures {
					if e.Label == "fluent" {
						has = true
					}
				}
			}
			if !has {
				bad = append(bad, impl+m.Name()+" has no `fluent` postcondition")
			}
		}
	}
	sort.Strings(bad)
	out = append(out, structOb{"pkg/fluent-coverage", []string{"C19"}, len(bad) == 0, strings.Join(bad, "; ")})
	// 6. C05/C06 coverage: every method of the interfaces has a contract
	bad = nil
	for _, iname := range []string{"List", "Object"} {
		obj := x.pkg.Pkg.Scope().Lookup(iname)
		it, ok := obj.Type().Underlying().(*types.Interface)
		if !ok {
			continue
		}
		impl := map[string]string{"List": "(*list).", "Object": "(*object)."}[iname]
		for i := 0; i < it.NumMethods(); i++ {
			m := it.Method(i)
			if !m.Exported() {
				continue
			}
			if x.cf.ByFunc[impl+m.Name()] == nil {
				bad = append(bad, impl+m.Name())
			}
		}
	}
	sort.Strings(bad)
	out = append(out, structOb{"pkg/interface-methods-under-contract", []string{"C05", "C06"}, len(bad) == 0, "no contract: " + strings.Join(bad, ", ")})
	return out
}

// plainBoxConstructor checks that fn is `return &T{f: param}` (or `&T{}` for a parameterless constructor) and
// nothing else; "" when it is.
func plainBoxConstructor(fn *ssa.Function) string {
	if len(fn.Blocks) != 1 {
		return "body has control flow"
	}
	var ins []ssa.Instruction
	for _, in := range fn.Blocks[0].Instrs {
		if _, dbg := in.(*ssa.DebugRef); !dbg {
			ins = append(ins, in)
		}
	}
	want := 2 + 2*len(fn.Params)
	if len(fn.Params) > 1 || len(ins) != want {
		return fmt.Sprintf("body is not a plain box construction (%d instructions)", len(ins))
	}
	al, ok := ins[0].(*ssa.Alloc)
	if !ok || !al.Heap {
		return "does not start with the allocation of the box"
	}
	st, ok := al.Type().(*types.Pointer).Elem().Underlying().(*types.Struct)
	if !ok || st.NumFields() != len(fn.Params) {
		return "box type is not a struct with one field per parameter"
	}
	if len(fn.Params) == 1 {
		fa, ok := ins[1].(*ssa.FieldAddr)
		if !ok || fa.X != ssa.Value(al) || fa.Field != 0 {
			return "second instruction does not address the field of the box"
		}
		s, ok := ins[2].(*ssa.Store)
		if !ok || s.Addr != ssa.Value(fa) || s.Val != ssa.Value(fn.Params[0]) {
			return "the field is not initialised with the parameter itself"
		}
	}
	r, ok := ins[len(ins)-1].(*ssa.Return)
	if !ok || len(r.Results) != 1 || r.Results[0] != ssa.Value(al) {
		return "does not return the box"
	}
	return ""
}
