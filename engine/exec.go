package main

// Symbolic executor over go/ssa: path splitting, loops cut at invariants,
// calls replaced by contracts (or inlined when contract-less and loop-free).

import (
	"regexp"
	"fmt"
	"go/constant"
	"go/token"
	"go/types"
	"sort"
	"strings"

	"golang.org/x/tools/go/ssa"
)

var heapComps = []string{"Larr", "Loff", "Llen", "Lcap", "Lptr", "Omap", "Optr", "Mem", "MDom", "MVal", "MCard",
	"CInt", "CBool", "CVal", "CStr", "CF64", "Kind", "next", "TrLen", "TrA", "TrB"}

type Oblig struct {
	Name  string
	Func  string
	Props []string
	Ctx   []string // declarations and hypotheses
	Goal  string   // formula to prove ("" for feasibility probes)
	Path  string
	Kind  string // "goal" | "feasible"
	Pos   string
	// results
	Status  string // proved | failed | unknown
	Backend string
	Ms      int64
	Output  string
}

type Frame struct {
	spawned bool // body of a goroutine started with `go` (executed at the spawn point: sequentialisation)
	fn    *ssa.Function
	env   map[ssa.Value]SV
	blk   *ssa.BasicBlock
	prev  *ssa.BasicBlock
	pc    int
	ret   ssa.Value // call instruction value to bind in the parent
	isTop bool
}

// pathFrame: the containers on a tree-form path below a root container (evaluated in the base heap)
type pathFrame struct {
	kind, root, tf string // kind "O" | "L"
}

// inPath: SMT condition "container r (implementation reference) lies on one of the path frames" in heap H
func (fs *frameSet) inPath(H, r string) string {
	if len(fs.paths) == 0 {
		return "false"
	}
	var cs []string
	for _, pf := range fs.paths {
		cs = append(cs, fmt.Sprintf("(onPath%s %s %s %s %s)", pf.kind, H, pf.root, pf.tf, r))
	}
	if len(cs) == 1 {
		return cs[0]
	}
	return "(or " + strings.Join(cs, " ") + ")"
}

type frameSet struct {
	paths                          []pathFrame
	lists, objs, cells, arrs, maps []string
	all                            bool
	tree                           bool // anything may change except identities (ptr fields, allocation kinds of existing objects)
}

type Path struct {
	trTouched bool // some instruction on this path wrote the ghost trace
	frames   []*Frame
	H, H0    string
	ctx      []string
	desc     []string
	variants map[int]string
	unpub    []string
	freshT   map[string]bool
	callOrd  map[string]int
	wfKnown  string
	lets     map[string]SV
	nforks   int
	cellSV     map[string]SV // content of cells whose type is not modelled in the heap (function values)
	waited     bool
	spawnedAny bool
	mutexes    []string
	pendingExt string
	prevH      string
	anchors  []anchor
	seq      int
	freshSeq map[string]int
	loopFrame *frameSet
	loopBase  string
	loopBody  map[*ssa.BasicBlock]bool
}

// anchor: a heap such that everything existing in it is still unchanged in the current heap
type anchor struct {
	H   string
	seq int
}

// extStep records a heap transition old -> p.H. kind: "ghost" (cells, trace, allocation, empty-frame
// call), "fresh:<id>" (write to storage identified by id), or "break" (write to pre-existing containers).
func (x *Exec) extStep(p *Path, newH, kind string) {
	p.seq++
	if kind == "ghost" && p.wfKnown != "" && p.wfKnown == p.prevH {
		// wf constrains only live containers and the unallocated region: cell / trace updates,
		// allocation and publication of nothing-yet-live preserve it
		p.assume(fmt.Sprintf("(wf %s)", newH))
		p.wfKnown = newH
	}
	keep := p.anchors[:0:0]
	for _, a := range p.anchors {
		ok := false
		switch {
		case kind == "ghost" || kind == "publish":
			ok = true
		case strings.HasPrefix(kind, "fresh:"):
			if s, isFresh := p.freshSeq[kind[6:]]; isFresh && a.seq <= s {
				ok = true
			}
		}
		if ok {
			p.assume(fmt.Sprintf("(ext %s %s)", a.H, newH))
			keep = append(keep, a)
		}
	}
	p.anchors = keep
}

func (x *Exec) addAnchorAt(p *Path, h string) {
	p.anchors = append(p.anchors, anchor{h, p.seq})
	if len(p.anchors) > 5 {
		p.anchors = p.anchors[len(p.anchors)-5:]
	}
}

func (x *Exec) addAnchor(p *Path) {
	p.anchors = append(p.anchors, anchor{p.H, p.seq})
	if len(p.anchors) > 5 {
		p.anchors = p.anchors[len(p.anchors)-5:]
	}
}

type loopInfo struct {
	ord    int
	head   *ssa.BasicBlock
	body   map[*ssa.BasicBlock]bool
	writes bool
}

type funcCtx struct {
	fn     *ssa.Function
	ct     *Contract
	loops  map[*ssa.BasicBlock]*loopInfo
	params map[string]SV
	frame  frameSet
	names  map[string]ssa.Value // unique local names
	nexits int
	refNames map[string]bool
	multi    map[string][]ssa.Value // local names with several SSA values (resolved per loop by dominance)
}

type Exec struct {
	abort        bool // stop exploring the current function (a binding failure that repeats on every path)
	prog         *ssa.Program
	pkg          *ssa.Package
	cf           *ContractFile
	heapFns      map[string]bool
	fnSort       map[string]Sort
	strs         map[string]int
	strList      []string
	floats       map[string]int
	floatList    []string
	fieldType    types.Type
	fieldMapType *types.Map
	obls         []*Oblig
	nfresh       int
	cur          *funcCtx
	errs         []string
	maxPaths     int
	npaths       int
	usedCt       map[string]bool // contracts used as assumptions
	assumptions  map[string]bool
	pending      []*Path
}

func (x *Exec) fresh(prefix string) string {
	x.nfresh++
	return fmt.Sprintf("%s_%d", prefix, x.nfresh)
}

func (x *Exec) strConst(s string) string {
	switch s {
	case "":
		return "str_empty"
	case "null":
		return "str_null"
	case ".0":
		return "str_dot0"
	case "%s:%s":
		return "str_fmt_kv"
	case ".":
		return "str_dot"
	}
	if i, ok := x.strs[s]; ok {
		return fmt.Sprintf("strk_%d", i)
	}
	i := len(x.strList)
	x.strs[s] = i
	x.strList = append(x.strList, s)
	return fmt.Sprintf("strk_%d", i)
}

func (x *Exec) floatConstVal(v constant.Value) string {
	key := v.ExactString()
	if f, ok := constant.Float64Val(v); ok && f == float64(int64(f)) && f > -1e15 && f < 1e15 {
		n := int64(f)
		if n < 0 {
			return fmt.Sprintf("(i2f (- %d))", -n)
		}
		return fmt.Sprintf("(i2f %d)", n)
	}
	if i, ok := x.floats[key]; ok {
		return fmt.Sprintf("(fconst %d)", i)
	}
	i := len(x.floatList) + 1
	x.floats[key] = i
	x.floatList = append(x.floatList, key)
	return fmt.Sprintf("(fconst %d)", i)
}

func (x *Exec) floatConst(e Expr) string {
	switch n := e.(type) {
	case *EIdent:
		switch n.Name {
		case "MaxFloat64":
			return x.floatConstVal(constant.MakeFloat64(1.79769313486231570814527423731704356798070e+308))
		case "NegMaxFloat64":
			return x.floatConstVal(constant.MakeFloat64(-1.79769313486231570814527423731704356798070e+308))
		}
	case *EInt:
		return x.floatConstVal(constant.ToFloat(constant.MakeFromLiteral(n.V, token.INT, 0)))
	}
	return "(i2f 0)"
}

// ---------------------------------------------------------------------------
// path helpers

func (p *Path) clone() *Path {
	q := *p
	q.frames = make([]*Frame, len(p.frames))
	for i, f := range p.frames {
		nf := *f
		nf.env = make(map[ssa.Value]SV, len(f.env))
		for k, v := range f.env {
			nf.env[k] = v
		}
		q.frames[i] = &nf
	}
	q.ctx = append([]string(nil), p.ctx...)
	q.desc = append([]string(nil), p.desc...)
	q.variants = map[int]string{}
	for k, v := range p.variants {
		q.variants[k] = v
	}
	q.unpub = append([]string(nil), p.unpub...)
	q.freshT = map[string]bool{}
	for k, v := range p.freshT {
		q.freshT[k] = v
	}
	q.callOrd = map[string]int{}
	for k, v := range p.callOrd {
		q.callOrd[k] = v
	}
	q.lets = map[string]SV{}
	for k, v := range p.lets {
		q.lets[k] = v
	}
	q.cellSV = map[string]SV{}
	for k, v := range p.cellSV {
		q.cellSV[k] = v
	}
	q.mutexes = append([]string(nil), p.mutexes...)
	q.anchors = append([]anchor(nil), p.anchors...)
	q.freshSeq = map[string]int{}
	for k, v := range p.freshSeq {
		q.freshSeq[k] = v
	}
	return &q
}

func (p *Path) top() *Frame { return p.frames[len(p.frames)-1] }

func (p *Path) assume(f string) {
	if f == "" || f == "true" {
		return
	}
	p.ctx = append(p.ctx, "(assert "+f+")")
}

func (p *Path) declare(name, sort string) {
	p.ctx = append(p.ctx, fmt.Sprintf("(declare-const %s %s)", name, sort))
}

func (x *Exec) newHeap(p *Path) string {
	h := x.fresh("H")
	p.declare(h, "Heap")
	p.assume("(gh " + h + ")") // a heap of the execution: the facts about reachable heaps apply to it
	return h
}

// upd replaces one component of the current heap.
func (x *Exec) upd(p *Path, comp string, val string) {
	var parts []string
	for _, c := range heapComps {
		if c == comp {
			parts = append(parts, val)
		} else {
			parts = append(parts, fmt.Sprintf("(%s %s)", c, p.H))
		}
	}
	h := x.newHeap(p)
	p.assume(fmt.Sprintf("(= %s (mkHeap %s))", h, strings.Join(parts, " ")))
	p.prevH = p.H
	p.H = h
	if ghostComp[comp] {
		x.extStep(p, h, "ghost")
	} else {
		x.extStep(p, h, p.pendingExt)
	}
	p.pendingExt = ""
}

// components that hold no container state (cells, trace)
var ghostComp = map[string]bool{"CInt": true, "CBool": true, "CVal": true, "CStr": true, "CF64": true, "TrLen": true, "TrA": true, "TrB": true}

func (x *Exec) updMulti(p *Path, repl map[string]string) {
	var parts []string
	for _, c := range heapComps {
		if v, ok := repl[c]; ok {
			parts = append(parts, v)
		} else {
			parts = append(parts, fmt.Sprintf("(%s %s)", c, p.H))
		}
	}
	h := x.newHeap(p)
	p.assume(fmt.Sprintf("(= %s (mkHeap %s))", h, strings.Join(parts, " ")))
	allGhost := true
	for c := range repl {
		if !ghostComp[c] {
			allGhost = false
		}
	}
	p.prevH = p.H
	p.H = h
	if allGhost {
		x.extStep(p, h, "ghost")
	} else {
		x.extStep(p, h, p.pendingExt)
	}
	p.pendingExt = ""
}

func (x *Exec) store1(p *Path, comp, idx, val string) {
	x.upd(p, comp, fmt.Sprintf("(store (%s %s) %s %s)", comp, p.H, idx, val))
}

// alloc hands out a fresh id of the given allocation kind.
func (x *Exec) alloc(p *Path, kind string, n int) string {
	id := x.fresh("a")
	p.declare(id, "Int")
	p.assume(fmt.Sprintf("(= %s (next %s))", id, p.H))
	kinds := fmt.Sprintf("(Kind %s)", p.H)
	for i := 0; i < n; i++ {
		kinds = fmt.Sprintf("(store %s (+ %s %d) %s)", kinds, id, i, kind)
	}
	p.pendingExt = "ghost" // allocation changes nothing that existed
	x.updMulti(p, map[string]string{"Kind": kinds, "next": fmt.Sprintf("(+ %s %d)", id, n)})
	p.freshT[id] = true
	p.freshSeq[id] = p.seq
	return id
}

func (x *Exec) oblig(p *Path, name, goal string, props []string, pos string) {
	o := &Oblig{Name: x.cur.ct.Func + "/" + name, Func: x.cur.ct.Func, Props: props, Ctx: append([]string(nil), p.ctx...),
		Goal: goal, Path: strings.Join(p.desc, ">"), Kind: "goal", Pos: pos}
	x.obls = append(x.obls, o)
}

func (x *Exec) probe(p *Path, name string) {
	o := &Oblig{Name: x.cur.ct.Func + "/" + name, Func: x.cur.ct.Func, Props: x.cur.ct.Props, Ctx: append([]string(nil), p.ctx...),
		Path: strings.Join(p.desc, ">"), Kind: "feasible"}
	x.obls = append(x.obls, o)
}

func (x *Exec) errorf(f string, a ...interface{}) {
	x.errs = append(x.errs, fmt.Sprintf(f, a...))
}

func (x *Exec) pos(i ssa.Instruction) string {
	if i == nil || !i.Pos().IsValid() {
		return ""
	}
	ps := x.prog.Fset.Position(i.Pos())
	f := ps.Filename
	if k := strings.LastIndex(f, "/"); k >= 0 {
		f = f[k+1:]
	}
	return fmt.Sprintf("%s:%d", f, ps.Line)
}

// ---------------------------------------------------------------------------
// cells

func cellComp(t types.Type) string {
	switch sortOf(t) {
	case SInt, SRefL, SRefO:
		return "CInt"
	case SBool:
		return "CBool"
	case SStr:
		return "CStr"
	case SF64:
		return "CF64"
	case SVal:
		return "CVal"
	}
	return ""
}

func (x *Exec) readCell(H string, l *Loc) SV {
	if _, ok := l.Elem.Underlying().(*types.Slice); ok {
		sl := l.Elem.Underlying().(*types.Slice)
		g := func(k int) string { return fmt.Sprintf("(select (CInt %s) (+ %s %d))", H, l.Cell, k) }
		return SV{K: KSlice, Arr: g(0), Off: g(1), Len: g(2), Cap: g(3), Elem: sl.Elem()}
	}
	if m, ok := l.Elem.Underlying().(*types.Map); ok {
		return SV{K: KMap, T: fmt.Sprintf("(select (CInt %s) %s)", H, l.Cell), MapT: m}
	}
	if l.Kind == "builder" {
		return SV{K: KTerm, T: fmt.Sprintf("(select (CStr %s) %s)", H, l.Cell), S: SStr}
	}
	c := cellComp(l.Elem)
	if c == "" {
		return SV{K: KOpaque}
	}
	return SV{K: KTerm, T: fmt.Sprintf("(select (%s %s) %s)", c, H, l.Cell), S: sortOf(l.Elem), Go: l.Elem}
}

func (x *Exec) writeCell(p *Path, l *Loc, v SV) {
	if v.K == KSlice {
		cs := fmt.Sprintf("(CInt %s)", p.H)
		for k, t := range []string{v.Arr, v.Off, v.Len, v.Cap} {
			cs = fmt.Sprintf("(store %s (+ %s %d) %s)", cs, l.Cell, k, t)
		}
		x.upd(p, "CInt", cs)
		return
	}
	if v.K == KMap {
		x.store1(p, "CInt", l.Cell, v.T)
		return
	}
	c := cellComp(l.Elem)
	if c == "" || v.K != KTerm {
		return
	}
	x.store1(p, c, l.Cell, v.T)
}

// ---------------------------------------------------------------------------
// loops

func findLoops(fn *ssa.Function) map[*ssa.BasicBlock]*loopInfo {
	loops := map[*ssa.BasicBlock]*loopInfo{}
	for _, b := range fn.Blocks {
		for _, s := range b.Succs {
			if s.Dominates(b) { // back edge b -> s
				li := loops[s]
				if li == nil {
					li = &loopInfo{head: s, body: map[*ssa.BasicBlock]bool{s: true}}
					loops[s] = li
				}
				// natural loop: nodes reaching b without passing s
				stack := []*ssa.BasicBlock{b}
				for len(stack) > 0 {
					n := stack[len(stack)-1]
					stack = stack[:len(stack)-1]
					if li.body[n] {
						continue
					}
					li.body[n] = true
					stack = append(stack, n.Preds...)
				}
			}
		}
	}
	var heads []*ssa.BasicBlock
	for h := range loops {
		heads = append(heads, h)
	}
	sort.Slice(heads, func(i, j int) bool {
		pi, pj := firstPos(heads[i]), firstPos(heads[j])
		if pi != pj {
			return pi < pj
		}
		return heads[i].Index < heads[j].Index
	})
	for i, h := range heads {
		loops[h].ord = i + 1
		loops[h].writes = true
	}
	return loops
}

func firstPos(b *ssa.BasicBlock) token.Pos {
	// position of the loop: smallest valid position among the body's instructions of the head block and its successors
	best := token.Pos(1 << 30)
	for _, in := range b.Instrs {
		if in.Pos().IsValid() && in.Pos() < best {
			best = in.Pos()
		}
	}
	if best == token.Pos(1<<30) {
		for _, s := range b.Succs {
			for _, in := range s.Instrs {
				if in.Pos().IsValid() && in.Pos() < best {
					best = in.Pos()
				}
			}
		}
	}
	return best
}

func (x *Exec) loopWrites(li *loopInfo) bool {
	for b := range li.body {
		for _, in := range b.Instrs {
			switch v := in.(type) {
			case *ssa.Store, *ssa.MapUpdate, *ssa.MakeSlice, *ssa.MakeMap, *ssa.Go:
				return true
			case *ssa.Alloc:
				return true
			case ssa.CallInstruction:
				c := v.Common()
				if b, ok := c.Value.(*ssa.Builtin); ok {
					if b.Name() == "len" || b.Name() == "cap" {
						continue
					}
				}
				if key := x.calleeKey(c); key != "" {
					if ct := x.cf.ByFunc[key]; ct != nil && ct.Flags["pure"] {
						continue
					}
				}
				return true
			}
		}
	}
	return false
}

// ---------------------------------------------------------------------------
// values

func (x *Exec) constSV(c *ssa.Const) SV {
	t := c.Type()
	if c.Value == nil {
		// nil / zero value
		switch u := t.Underlying().(type) {
		case *types.Slice:
			return SV{K: KSlice, Arr: "0", Off: "0", Len: "0", Cap: "0", Elem: u.Elem()}
		case *types.Map:
			return SV{K: KMap, T: "0", MapT: u}
		case *types.Pointer:
			if s := sortOf(t); s == SRefL || s == SRefO {
				return term("0", s)
			}
			return SV{K: KOpaque}
		case *types.Interface:
			return SV{K: KTerm, T: "VNil", S: SVal, Go: t}
		case *types.Signature:
			return SV{K: KOpaque}
		}
		return SV{K: KTerm, T: "VNil", S: SVal, Go: t}
	}
	switch sortOf(t) {
	case SInt:
		s := c.Value.ExactString()
		if c.Value.Kind() != constant.Int {
			if i, ok := constant.Int64Val(constant.ToInt(c.Value)); ok {
				s = fmt.Sprint(i)
			}
		}
		if strings.HasPrefix(s, "-") {
			s = "(- " + s[1:] + ")"
		}
		return SV{K: KTerm, T: s, S: SInt, Go: t}
	case SBool:
		return term(fmt.Sprint(constant.BoolVal(c.Value)), SBool)
	case SStr:
		return term(x.strConst(constant.StringVal(c.Value)), SStr)
	case SF64:
		return term(x.floatConstVal(constant.ToFloat(c.Value)), SF64)
	}
	return SV{K: KOpaque}
}

func (x *Exec) val(p *Path, v ssa.Value) SV {
	switch c := v.(type) {
	case *ssa.Const:
		return x.constSV(c)
	case *ssa.Function:
		return SV{K: KFunc, Fn: &FnVal{Fn: c}}
	case *ssa.Global:
		return SV{K: KOpaque}
	case *ssa.Builtin:
		return SV{K: KOpaque}
	}
	f := p.top()
	if sv, ok := f.env[v]; ok {
		return sv
	}
	x.errorf("%s: unbound SSA value %s (%T) in %s", x.cur.ct.Func, v.Name(), v, f.fn.Name())
	return SV{K: KOpaque}
}

// freshOf creates an unconstrained symbolic value of Go type t (with its type invariant).
func (x *Exec) freshOf(p *Path, t types.Type, hint string) SV {
	switch u := t.Underlying().(type) {
	case *types.Slice:
		sv := SV{K: KSlice, Elem: u.Elem()}
		for _, f := range []*string{&sv.Arr, &sv.Off, &sv.Len, &sv.Cap} {
			*f = x.fresh(hint)
			p.declare(*f, "Int")
		}
		p.assume(fmt.Sprintf("(and (<= 0 %s) (<= %s %s) (<= %s MAXINT) (<= 0 %s) (<= 0 %s))", sv.Len, sv.Len, sv.Cap, sv.Cap, sv.Off, sv.Arr))
		return sv
	case *types.Map:
		n := x.fresh(hint)
		p.declare(n, "Int")
		p.assume(fmt.Sprintf("(<= 0 %s)", n))
		return SV{K: KMap, T: n, MapT: u}
	case *types.Tuple:
		var tup []SV
		for i := 0; i < u.Len(); i++ {
			tup = append(tup, x.freshOf(p, u.At(i).Type(), hint))
		}
		return SV{K: KTuple, Tup: tup}
	case *types.Signature:
		return SV{K: KFunc, Fn: &FnVal{Param: hint, Sig: u}}
	}
	s := sortOf(t)
	if s == SUnk {
		return SV{K: KOpaque, Go: t}
	}
	n := x.fresh(hint)
	p.declare(n, s.smt())
	p.assume(typeInv(t, n))
	return SV{K: KTerm, T: n, S: s, Go: t}
}

// specEnv builds the evaluation environment of spec expressions at the current point of the top-level function.
func (x *Exec) specEnv(p *Path) *SpecEnv {
	vars := map[string]SV{}
	for k, v := range x.cur.params {
		vars[k] = v
	}
	// unique locals already defined
	f := p.frames[0]
	for name, v := range x.cur.names {
		if sv, ok := f.env[v]; ok {
			if _, clash := vars[name]; !clash {
				vars[name] = sv
			}
		}
	}
	for k, v := range p.lets {
		vars[k] = v
	}
	env := &SpecEnv{x: x, vars: vars, H: p.H, H0: p.H0, HN: p.H0}
	x.spareVars(vars) // initialises the set of names the contract refers to
	env.spare = map[string]SV{} // only loop-carried variables are candidates (added by loopVars)
	return env
}

// spareVars: local names (not parameters) that no clause of the current contract mentions.
func (x *Exec) spareVars(vars map[string]SV) map[string]SV {
	ct := x.cur.ct
	if x.cur.refNames == nil {
		x.cur.refNames = map[string]bool{}
		add := func(src string) {
			for _, id := range reSym.FindAllString(src, -1) {
				x.cur.refNames[id] = true
			}
		}
		for _, c := range allClauses(ct) {
			add(c.Src)
		}
		for _, l := range ct.Loops {
			for _, c := range l.Assigns {
				add(c.Src)
			}
			if l.Decreases != nil {
				add(l.Decreases.Src)
			}
		}
		for _, c := range ct.Assigns {
			add(c.Src)
		}
	}
	out := map[string]SV{}
	for k, v := range vars {
		if _, isParam := x.cur.params[k]; isParam {
			continue
		}
		if x.cur.refNames[k] || k == "idx" || k == "rangeindex" || k == "ord" || k == "ordn" || k == "ordpos" {
			continue
		}
		out[k] = v
	}
	return out
}

func sanitize(s string) string {
	r := strings.NewReplacer("(", "", ")", "", "*", "", ".", "_", "$", "_", " ", "_", "#", "_")
	return r.Replace(s)
}

// ---------------------------------------------------------------------------
// verification of one function

func (x *Exec) verifyFunc(fn *ssa.Function, ct *Contract) {
	fc := &funcCtx{fn: fn, ct: ct, loops: findLoops(fn), params: map[string]SV{}, names: map[string]ssa.Value{}}
	for _, li := range fc.loops {
		li.writes = x.loopWrites(li)
	}
	x.cur = fc
	x.abort = false
	p := &Path{variants: map[int]string{}, freshT: map[string]bool{}, callOrd: map[string]int{}, lets: map[string]SV{}, freshSeq: map[string]int{}, cellSV: map[string]SV{}}
	p.H0 = x.newHeap(p)
	p.H = p.H0
	x.addAnchor(p)
	p.assume(fmt.Sprintf("(wf %s)", p.H0))
	p.wfKnown = p.H0
	fr := &Frame{fn: fn, env: map[ssa.Value]SV{}, blk: fn.Blocks[0], isTop: true}
	p.frames = []*Frame{fr}
	for _, prm := range fn.Params {
		sv := x.freshOf(p, prm.Type(), sanitize(prm.Name()))
		if pt, ok := prm.Type().(*types.Pointer); ok && sv.K == KOpaque && cellComp(pt.Elem()) != "" {
			// pointer to a scalar: a symbolic allocated cell
			c := x.fresh("cellp")
			p.declare(c, "Int")
			p.assume(fmt.Sprintf("(and (< 0 %s) (< %s (next %s)) (= (select (Kind %s) %s) KCELL))", c, c, p.H0, p.H0, c))
			sv = SV{K: KLoc, Loc: &Loc{Kind: "cell", Cell: c, Elem: pt.Elem()}}
			if inv := typeInv(pt.Elem(), x.readCell(p.H0, sv.Loc).T); inv != "" {
				p.assume(inv)
			}
		}
		if sv.K == KSlice {
			// a slice parameter denotes allocated storage; by the re-basing symmetry of the memory
			// model (no Go code can observe a slice's offset) it starts at index 0 of its array
			p.assume(fmt.Sprintf("(and (< 0 %s) (< %s (next %s)) (= (select (Kind %s) %s) KNARR))", sv.Arr, sv.Arr, p.H0, p.H0, sv.Arr))
			p.assume(fmt.Sprintf("(= %s 0)", sv.Off))
			sv.Off = "0"
		}
		if sv.K == KTerm && (sv.S == SRefL || sv.S == SRefO || sv.S == SVal || sv.S == SInt) {
			// references in parameters point below the watermark
			if sv.S == SRefL || sv.S == SRefO {
				p.assume(fmt.Sprintf("(< %s (next %s))", sv.T, p.H0))
			}
		}
		fr.env[prm] = sv
		fc.params[prm.Name()] = sv
	}
	for i, fv := range fn.FreeVars {
		// closure verified as a function: captured cells are symbolic cell pointers
		pt := fv.Type().(*types.Pointer)
		c := x.fresh("cap")
		p.declare(c, "Int")
		p.assume(fmt.Sprintf("(and (< 0 %s) (< %s (next %s)))", c, c, p.H0))
		sv := SV{K: KLoc, Loc: &Loc{Kind: "cell", Cell: c, Elem: pt.Elem()}}
		fr.env[fv] = sv
		fc.params[fv.Name()] = sv
		_ = i
	}
	// ghost parameters (bound by the caller from its own lets / parameters of the same name)
	for _, g := range ct.Ghost {
		so := map[string]Sort{"int": SInt, "bool": SBool, "str": SStr, "f64": SF64, "val": SVal}[g.Type]
		n := x.fresh("ghost_" + sanitize(g.Name))
		p.declare(n, so.smt())
		fc.params[g.Name] = term(n, so)
	}
	// unique local names from DebugRefs
	seen := map[string]map[ssa.Value]bool{}
	for _, b := range fn.Blocks {
		for _, in := range b.Instrs {
			if d, ok := in.(*ssa.DebugRef); ok {
				if id, ok := d.Expr.(interface{ String() string }); ok {
					_ = id
				}
				if obj := d.Object(); obj != nil {
					if tv, isVar := obj.(*types.Var); isVar && !tv.IsField() {
						if seen[obj.Name()] == nil {
							seen[obj.Name()] = map[ssa.Value]bool{}
						}
						seen[obj.Name()][d.X] = true
					}
				}
			}
		}
	}
	// address-taken locals: the name denotes the cell
	for _, b := range fn.Blocks {
		for _, in := range b.Instrs {
			if d, ok := in.(*ssa.DebugRef); ok && d.IsAddr {
				if obj := d.Object(); obj != nil {
					if _, isAlloc := d.X.(*ssa.Alloc); isAlloc {
						seen[obj.Name()] = map[ssa.Value]bool{d.X: true}
					}
				}
			}
		}
	}
	// allocs named after their variable (captured locals): the name denotes the cell, if unambiguous
	allocs := map[string][]ssa.Value{}
	for _, b := range fn.Blocks {
		for _, in := range b.Instrs {
			if a, ok := in.(*ssa.Alloc); ok && a.Comment != "" && a.Comment != "complit" && a.Comment != "varargs" && a.Comment != "new" {
				allocs[a.Comment] = append(allocs[a.Comment], a)
			}
		}
	}
	for name, as := range allocs {
		if len(as) == 1 {
			seen[name] = map[ssa.Value]bool{as[0]: true}
		}
	}
	fc.multi = map[string][]ssa.Value{}
	for name, vs := range seen {
		if len(vs) > 1 {
			for v := range vs {
				fc.multi[name] = append(fc.multi[name], v)
			}
		}
	}
	for name, vs := range seen {
		if len(vs) == 1 {
			for v := range vs {
				if _, isParam := v.(*ssa.Parameter); !isParam {
					fc.names[name] = v
				}
			}
		}
	}
	for fl := range ct.Flags {
		if strings.HasPrefix(fl, "implements=") {
			ic := x.cf.ByFunc[fl[len("implements="):]]
			if ic == nil {
				x.errorf("%s: unknown interface contract %s", ct.Func, fl)
				return
			}
			// the implementation must satisfy the interface-level contract with self := receiver
			m := *ct
			m.Flags = map[string]bool{}
			for k, v := range ct.Flags {
				m.Flags[k] = v
			}
			for k, v := range ic.Flags {
				m.Flags[k] = v
			}
			m.Requires = append(append([]*Clause(nil), ic.Requires...), ct.Requires...)
			m.Ensures = append(append([]*Clause(nil), ic.Ensures...), ct.Ensures...)
			m.Lets = append(append([]*Let(nil), ic.Lets...), ct.Lets...)
			m.PLets = append(append([]*Let(nil), ic.PLets...), ct.PLets...)
			if m.PanicsIff == nil {
				m.PanicsIff = ic.PanicsIff
			}
			if m.Decreases == nil {
				m.Decreases = ic.Decreases
			}
			if len(m.Assigns) == 0 {
				m.Assigns = ic.Assigns
			}
			if len(m.Props) == 0 {
				m.Props = ic.Props
			}
			ct = &m
			fc.ct = ct
			recv := fn.Params[0]
			if k := ptrToNamed(recv.Type()); k == "list" || k == "object" {
				// the receiver is the implementation of some outer value o (o == ego for plain containers)
				o := x.fresh("outer")
				p.declare(o, "Int")
				p.assume(fmt.Sprintf("(= (impl %s) %s)", o, fr.env[recv].T))
				if k == "list" {
					fc.params["self"] = term("(VList "+o+")", SVal)
				} else {
					fc.params["self"] = term("(VObj "+o+")", SVal)
				}
			} else {
				fc.params["self"] = x.makeInterface(p, recv.Type(), fr.env[recv])
			}
		}
	}
	env := x.specEnv(p)
	for _, lt := range ct.Lets {
		sv, err := env.evalSV(lt.E)
		if err != nil {
			x.errorf("%s: let %s: %v", ct.Func, lt.Name, err)
			return
		}
		p.lets[lt.Name] = sv
		env = x.specEnv(p)
	}
	for _, d := range ct.Defines {
		denv := env
		var decl, args []string
		for _, qv := range d.Params {
			ss, so := quantSort(qv.Type)
			nm := "d_" + qv.Name
			decl = append(decl, fmt.Sprintf("(%s %s)", nm, ss))
			args = append(args, nm)
			denv = denv.with(qv.Name, term(nm, so))
		}
		body, err := denv.evalBool(d.E)
		if err != nil {
			x.errorf("%s: define %s: %v", ct.Func, d.Name, err)
			return
		}
		app := "(" + d.Name + " " + strings.Join(args, " ") + ")"
		p.assume(fmt.Sprintf("(forall (%s) (! (= %s %s) :pattern (%s)))", strings.Join(decl, " "), app, body, app))
	}
	for _, rq := range ct.Requires {
		s, err := env.evalBool(rq.E)
		if err != nil {
			x.errorf("%s: requires %s: %v", ct.Func, rq.Label, err)
			return
		}
		p.assume(s)
	}
	x.obls = append(x.obls, &Oblig{Name: ct.Func + "/canary", Func: ct.Func, Props: ct.Props, Ctx: append([]string(nil), p.ctx...), Goal: "false", Kind: "canary"})
	// frame
	for _, as := range ct.Assigns {
		x.addFrame(&fc.frame, env, as.E)
	}
	x.runPaths(p)
	if fc.nexits == 0 {
		x.errorf("%s: no exit path generated", ct.Func)
	}
}

func (x *Exec) addFrame(fs *frameSet, env *SpecEnv, e Expr) {
	switch n := e.(type) {
	case *EIdent:
		if n.Name == "nothing" {
			return
		}
		if n.Name == "everything" {
			fs.all = true
			return
		}
		if n.Name == "tree" {
			fs.tree = true
			return
		}
	case *ECall:
		if len(n.Args) == 2 && (n.Fn == "pathO" || n.Fn == "pathL") {
			r, err1 := env.evalSV(n.Args[0])
			t, err2 := env.evalSV(n.Args[1])
			if err1 != nil || err2 != nil {
				x.errorf("%s: assigns: %v %v", x.cur.ct.Func, err1, err2)
				return
			}
			fs.paths = append(fs.paths, pathFrame{n.Fn[4:], r.T, t.T})
			return
		}
		if len(n.Args) == 1 {
			sv, err := env.evalSV(n.Args[0])
			if err != nil {
				x.errorf("%s: assigns: %v", x.cur.ct.Func, err)
				return
			}
			switch n.Fn {
			case "list":
				fs.lists = append(fs.lists, sv.T)
				return
			case "obj":
				fs.objs = append(fs.objs, sv.T)
				return
			case "cell":
				if sv.K == KLoc && sv.Loc.Kind == "builder" {
					fs.cells = append(fs.cells, sv.Loc.Cell)
				} else if sv.K == KLoc {
					fs.cells = append(fs.cells, sv.Loc.Cell)
				} else {
					fs.cells = append(fs.cells, sv.T)
				}
				return
			case "arr":
				if sv.K == KSlice {
					fs.arrs = append(fs.arrs, sv.Arr)
				} else {
					fs.arrs = append(fs.arrs, sv.T)
				}
				return
			case "mapof":
				fs.maps = append(fs.maps, sv.T)
				return
			}
		}
	case *EBin:
		if n.Op == "&&" {
			x.addFrame(fs, env, n.L)
			x.addFrame(fs, env, n.R)
			return
		}
	}
	x.errorf("%s: unsupported assigns clause", x.cur.ct.Func)
}

// frameAxioms states that heap Hb differs from Ha only inside fs (evaluated in Ha) or in storage fresh w.r.t. Ha.
func frameAxioms(fs *frameSet, Ha, Hb string) []string {
	if fs.all {
		return []string{fmt.Sprintf("(>= (next %s) (next %s))", Hb, Ha)}
	}
	if fs.tree {
		var out []string
		for _, comp := range []string{"Lptr", "Optr", "Kind"} {
			out = append(out, fmt.Sprintf("(forall ((r Int)) (! (=> (< r (next %s)) (= (select (%s %s) r) (select (%s %s) r))) :pattern ((select (%s %s) r))))", Ha, comp, Hb, comp, Ha, comp, Hb))
		}
		out = append(out, fmt.Sprintf("(>= (next %s) (next %s))", Hb, Ha))
		return out
	}
	notIn := func(v string, set []string) string {
		if len(set) == 0 {
			return "true"
		}
		var cs []string
		for _, s := range set {
			cs = append(cs, fmt.Sprintf("(not (= %s %s))", v, s))
		}
		return "(and " + strings.Join(cs, " ") + ")"
	}
	var out []string
	q := func(comp, cond string) {
		out = append(out, fmt.Sprintf("(forall ((r Int)) (! (=> (and (< r (next %s)) %s) (= (select (%s %s) r) (select (%s %s) r))) :pattern ((select (%s %s) r))))",
			Ha, cond, comp, Hb, comp, Ha, comp, Hb))
	}
	offPath := "true"
	if len(fs.paths) > 0 {
		offPath = "(not " + fs.inPath(Ha, "r") + ")"
	}
	and2 := func(a, b string) string {
		if b == "true" {
			return a
		}
		if a == "true" {
			return b
		}
		return "(and " + a + " " + b + ")"
	}
	for _, c := range []string{"Larr", "Loff", "Llen", "Lcap"} {
		q(c, and2(notIn("r", fs.lists), offPath))
	}
	q("Lptr", "true")
	q("Optr", "true")
	q("Omap", and2(notIn("r", fs.objs), offPath))
	var arrs []string
	for _, l := range fs.lists {
		arrs = append(arrs, fmt.Sprintf("(select (Larr %s) %s)", Ha, l))
	}
	arrs = append(arrs, fs.arrs...)
	var maps []string
	for _, o := range fs.objs {
		maps = append(maps, fmt.Sprintf("(select (Omap %s) %s)", Ha, o))
	}
	maps = append(maps, fs.maps...)
	if len(fs.paths) == 0 {
		q("Mem", notIn("r", arrs))
		for _, c := range []string{"MDom", "MVal", "MCard"} {
			q(c, notIn("r", maps))
		}
	} else {
		// which backing arrays / maps belong to containers on the path cannot be enumerated: the rows are
		// framed per owner (every live list / object off the path keeps its own row), native storage as a whole
		out = append(out, fmt.Sprintf("(forall ((r Int)) (! (=> (and (< r (next %s)) (= (select (Kind %s) r) KLIST) %s) (= (select (Mem %s) (select (Larr %s) r)) (select (Mem %s) (select (Larr %s) r)))) :pattern ((select (Mem %s) (select (Larr %s) r)))))",
			Ha, Ha, and2(notIn("r", fs.lists), offPath), Hb, Ha, Ha, Ha, Hb, Ha))
		out = append(out, fmt.Sprintf("(forall ((r Int)) (! (=> (and (< r (next %s)) (= (select (Kind %s) r) KNARR) %s) (= (select (Mem %s) r) (select (Mem %s) r))) :pattern ((select (Mem %s) r))))", Ha, Ha, notIn("r", arrs), Hb, Ha, Hb))
		for _, c := range []string{"MDom", "MVal", "MCard"} {
			out = append(out, fmt.Sprintf("(forall ((r Int)) (! (=> (and (< r (next %s)) (= (select (Kind %s) r) KOBJ) %s) (= (select (%s %s) (select (Omap %s) r)) (select (%s %s) (select (Omap %s) r)))) :pattern ((select (%s %s) (select (Omap %s) r)))))",
				Ha, Ha, and2(notIn("r", fs.objs), offPath), c, Hb, Ha, c, Ha, Ha, c, Hb, Ha))
			out = append(out, fmt.Sprintf("(forall ((r Int)) (! (=> (and (< r (next %s)) (= (select (Kind %s) r) KNMAP) %s) (= (select (%s %s) r) (select (%s %s) r))) :pattern ((select (%s %s) r))))", Ha, Ha, notIn("r", maps), c, Hb, c, Ha, c, Hb))
		}
	}
	for _, c := range []string{"CInt", "CBool", "CVal", "CStr", "CF64"} {
		q(c, notIn("r", fs.cells))
	}
	q("Kind", "true")
	out = append(out, fmt.Sprintf("(>= (next %s) (next %s))", Hb, Ha))
	return out
}

// frameCheck emits the obligation that a write to (kind, id) is permitted by the function's frame.
func (x *Exec) frameCheck(p *Path, kind, id string, in ssa.Instruction) {
	x.frameCheck1(p, &x.cur.frame, p.H0, "frame/", kind, id, in)
	if p.loopFrame != nil {
		x.frameCheck1(p, p.loopFrame, p.loopBase, "frame/loop-", kind, id, in)
	}
}

func (x *Exec) frameCheck1(p *Path, fs *frameSet, base, tag, kind, id string, in ssa.Instruction) {
	if fs.all || (p.freshT[id] && tag == "frame/") {
		return
	}
	if fs.tree {
		if kind == "ptr" {
			x.oblig(p, tag+"ptr-write", fmt.Sprintf("(>= %s (next %s))", id, base), x.cur.ct.Props, x.pos(in))
		}
		return
	}
	if kind == "ptr" {
		kind = "list-or-obj"
	}
	var set []string
	switch kind {
	case "list-or-obj":
		set = append(append([]string{}, fs.lists...), fs.objs...)
	case "list":
		set = fs.lists
	case "obj":
		set = fs.objs
	case "cell":
		set = fs.cells
	case "arr":
		for _, l := range fs.lists {
			set = append(set, fmt.Sprintf("(select (Larr %s) %s)", base, l))
		}
		set = append(set, fs.arrs...)
	case "map":
		for _, o := range fs.objs {
			set = append(set, fmt.Sprintf("(select (Omap %s) %s)", base, o))
		}
		set = append(set, fs.maps...)
	}
	cs := []string{fmt.Sprintf("(>= %s (next %s))", id, base)}
	for _, s := range set {
		cs = append(cs, fmt.Sprintf("(= %s %s)", id, s))
	}
	if len(fs.paths) > 0 && (kind == "list" || kind == "obj" || kind == "list-or-obj") {
		cs = append(cs, fs.inPath(base, id))
	}
	goal := cs[0]
	if len(cs) > 1 {
		goal = "(or " + strings.Join(cs, " ") + ")"
	}
	x.oblig(p, tag+kind+"-write", goal, x.cur.ct.Props, x.pos(in))
}

func (x *Exec) runPaths(p0 *Path) {
	work := []*Path{p0}
	for len(work) > 0 {
		p := work[len(work)-1]
		work = work[:len(work)-1]
		x.npaths++
		if x.abort {
			return
		}
		if x.npaths > x.maxPaths {
			x.errorf("%s: path budget exceeded", x.cur.ct.Func)
			return
		}
		x.runPath(p, &work)
	}
}

// runPath executes until the path ends; forks are pushed on work.
func (x *Exec) runPath(p *Path, work *[]*Path) {
	for steps := 0; steps < 20000; steps++ {
		f := p.top()
		if f.pc >= len(f.blk.Instrs) {
			x.errorf("%s: fell off block", x.cur.ct.Func)
			return
		}
		in := f.blk.Instrs[f.pc]
		f.pc++
		ok := x.execInstr(p, in, work)
		if len(x.pending) > 0 {
			*work = append(*work, x.pending...)
			x.pending = nil
		}
		if !ok {
			return
		}
	}
	x.errorf("%s: step budget exceeded", x.cur.ct.Func)
}

// jump moves the top frame to block b (handling phis and loop cuts). Returns false if the path ended.
func (x *Exec) jump(p *Path, b *ssa.BasicBlock) bool {
	f := p.top()
	from := f.blk
	// phi values along this edge
	var phis []*ssa.Phi
	var vals []SV
	for _, in := range b.Instrs {
		ph, ok := in.(*ssa.Phi)
		if !ok {
			break
		}
		for i, pred := range b.Preds {
			if pred == from {
				phis = append(phis, ph)
				vals = append(vals, x.val(p, ph.Edges[i]))
				break
			}
		}
	}
	if f.isTop {
		if li := x.cur.loops[b]; li != nil {
			return x.loopEdge(p, li, from, phis, vals)
		}
	} else if findLoops(f.fn)[b] != nil {
		x.errorf("%s: loop inside inlined %s needs a contract", x.cur.ct.Func, f.fn.Name())
		return false
	}
	for i, ph := range phis {
		f.env[ph] = vals[i]
	}
	if f.isTop && p.loopFrame != nil && !p.loopBody[b] {
		p.loopFrame = nil
	}
	f.prev = from
	f.blk = b
	f.pc = len(phis)
	p.desc = append(p.desc, fmt.Sprint(b.Index))
	return true
}

// iterOf finds the map iterator driven by a `next` in the loop head block.
func (x *Exec) iterOf(p *Path, head *ssa.BasicBlock) (SV, bool) {
	for _, in := range head.Instrs {
		if nx, ok := in.(*ssa.Next); ok {
			if sv, ok := p.frames[0].env[nx.Iter]; ok && sv.K == KIter {
				return sv, true
			}
		}
	}
	return SV{}, false
}

// domVars binds local names that have several SSA values to the one whose definition dominates the loop head.
func (x *Exec) domVars(p *Path, env *SpecEnv, head *ssa.BasicBlock) *SpecEnv {
	f := p.frames[0]
	for name, vals := range x.cur.multi {
		if _, have := env.vars[name]; have {
			continue
		}
		var cand []ssa.Value
		for _, v := range vals {
			in, ok := v.(ssa.Instruction)
			if !ok || in.Block() == nil {
				continue
			}
			if _, defined := f.env[v]; !defined {
				continue
			}
			if in.Block().Dominates(head) && in.Block() != head {
				cand = append(cand, v)
			}
		}
		if len(cand) > 1 {
			// keep the innermost (dominated by all others)
			var inner []ssa.Value
			for _, c := range cand {
				ok := true
				for _, d := range cand {
					if d != c && !d.(ssa.Instruction).Block().Dominates(c.(ssa.Instruction).Block()) {
						ok = false
					}
				}
				if ok {
					inner = append(inner, c)
				}
			}
			cand = inner
		}
		if len(cand) == 1 {
			env = env.with(name, f.env[cand[0]])
		}
	}
	return env
}

func (x *Exec) iterVars(p *Path, env *SpecEnv, head *ssa.BasicBlock) *SpecEnv {
	env = x.domVars(p, env, head)
	// unique locals defined before the loop that no clause mentions are candidates for a renamed local
	f := p.frames[0]
	for name, v := range x.cur.names {
		if x.cur.refNames[name] {
			continue
		}
		in, ok := v.(ssa.Instruction)
		if !ok || in.Block() == nil || in.Block() == head || !in.Block().Dominates(head) {
			continue
		}
		if sv, defined := f.env[v]; defined {
			if _, isAlloc := v.(*ssa.Alloc); isAlloc && sv.K == KLoc && sv.Loc.Kind == "opaque" {
				continue
			}
			n := *env
			n.spare = map[string]SV{}
			for k, vv := range env.spare {
				n.spare[k] = vv
			}
			n.spare[name] = sv
			env = &n
		}
	}
	if it, ok := x.iterOf(p, head); ok {
		env = env.with("idx", term(fmt.Sprintf("(select (CInt %s) %s)", env.H, it.Loc.Cell), SInt))
		if it.MapT == nil {
			return env // string iterator: idx is the byte position
		}
		env = env.with("ord", term(it.Arr, SOrd))
		env = env.with("ordn", term(it.Len, SInt))
		env = env.with("ordpos", term(it.Off, SOrdInv))
	}
	return env
}

func (x *Exec) loopVars(env *SpecEnv, phis []*ssa.Phi, vals []SV) *SpecEnv {
	for i, ph := range phis {
		name := ph.Comment
		if name == "" {
			continue
		}
		env = env.with(name, vals[i])
		if name == "rangeindex" && vals[i].K == KTerm {
			env = env.with("idx", term("(+ "+vals[i].T+" 1)", SInt))
		}
	}
	return env
}

func (x *Exec) loopEdge(p *Path, li *loopInfo, from *ssa.BasicBlock, phis []*ssa.Phi, vals []SV) bool {
	f := p.top()
	ls := x.cur.ct.Loops[li.ord]
	if ls == nil {
		x.errorf("%s: loop %d has no invariant", x.cur.ct.Func, li.ord)
		return false
	}
	entering := !li.body[from]
	tag := fmt.Sprintf("loop%d", li.ord)
	check := func(stage string) {
		env := x.iterVars(p, x.loopVars(x.specEnv(p), phis, vals), li.head)
		for _, lt := range ls.Lets {
			sv, err := env.evalSV(lt.E)
			if err != nil {
				x.errorf("%s: %s let: %v", x.cur.ct.Func, tag, err)
				continue
			}
			env = env.with(lt.Name, sv)
		}
		for _, inv := range ls.Invs {
			s, err := env.evalBool(inv.E)
			if err != nil {
				x.errorf("%s: %s invariant %s: %v", x.cur.ct.Func, tag, inv.Label, err)
				continue
			}
			x.oblig(p, fmt.Sprintf("%s/%s/%s", tag, stage, inv.Label), s, inv.Props, x.pos(nil))
		}
		if li.writes && p.H != p.wfKnown {
			x.wfOblig(p, tag+"/"+stage)
		}
		if li.writes && stage == "preserved" {
			base := p.H0
			if p.loopFrame != nil {
				base = p.loopBase
			}
			x.oblig(p, tag+"/preserved/fresh-containers-own-fresh-storage", freshOwn(base, p.H), x.cur.ct.Props, "")
		}
		if stage == "preserved" && ls.Decreases != nil {
			s, err := env.evalSV(ls.Decreases.E)
			if err == nil {
				old := p.variants[li.ord]
				x.oblig(p, tag+"/decreases", fmt.Sprintf("(and (<= 0 %s) (< %s %s))", old, s.T, old), ls.Decreases.Props, "")
			}
		}
	}
	if !entering {
		for i, ph := range phis {
			if cur, ok := f.env[ph]; ok && cur.K == KSlice && cur.Off == "0" && vals[i].Off != "0" {
				x.oblig(p, fmt.Sprintf("%s/preserved/offset0-%s", tag, sanitize(ph.Comment)), fmt.Sprintf("(= %s 0)", vals[i].Off), x.cur.ct.Props, "")
			}
		}
		check("preserved")
		x.cur.nexits++
		return false
	}
	if ls.Publish {
		x.publishAll(p)
	}
	{
		eenv := x.iterVars(p, x.loopVars(x.specEnv(p), phis, vals), li.head)
		for _, lt := range ls.ELets {
			sv, err := eenv.evalSV(lt.E)
			if err != nil {
				x.errorf("%s: %s elet %s: %v", x.cur.ct.Func, tag, lt.Name, err)
				continue
			}
			if sv.K == KTerm {
				sv = x.define(p, "entry_"+lt.Name, sv)
			}
			p.lets[lt.Name] = sv
		}
	}
	check("established")
	// havoc
	for i, ph := range phis {
		nv := x.freshOf(p, ph.Type(), sanitize(ph.Comment)+"_l")
		if nv.K == KSlice && vals[i].K == KSlice && vals[i].Off == "0" {
			// offset-0 slices stay offset-0 (checked on the back edge)
			p.assume(fmt.Sprintf("(= %s 0)", nv.Off))
			nv.Off = "0"
		}
		f.env[ph] = nv
		vals[i] = nv
	}
	if li.writes {
		lf, base := &x.cur.frame, p.H0
		if len(ls.Assigns) > 0 {
			lf, base = &frameSet{}, p.H
			aenv := x.iterVars(p, x.loopVars(x.specEnv(p), phis, vals), li.head)
			for _, as := range ls.Assigns {
				x.addFrame(lf, aenv, as.E)
			}
			if it, ok := x.iterOf(p, li.head); ok {
				lf.cells = append(lf.cells, it.Loc.Cell)
			}
			p.loopFrame, p.loopBase, p.loopBody = lf, base, li.body
		}
		hb := x.newHeap(p)
		for _, ax := range frameAxioms(lf, base, hb) {
			p.assume(ax)
		}
		x.seedFrame(p, lf, base, hb)
		if !lf.all && !lf.tree && len(lf.lists)+len(lf.objs)+len(lf.arrs)+len(lf.maps)+len(lf.paths) == 0 {
			p.assume(fmt.Sprintf("(ext %s %s)", base, hb))
		}
		p.anchors = nil
		p.assume(fmt.Sprintf("(>= (next %s) (next %s))", hb, p.H))
		if !x.loopHasCallbacks(li) {
			p.assume(fmt.Sprintf("(and (= (TrLen %s) (TrLen %s)) (= (TrA %s) (TrA %s)) (= (TrB %s) (TrB %s)))", hb, p.H, hb, p.H, hb, p.H))
		} else {
			p.trTouched = true
		}
		p.H = hb
		p.assume(fmt.Sprintf("(wf %s)", hb))
		p.assume(freshOwn(base, hb))
		p.wfKnown = hb
		x.addAnchor(p)
		// allocated ids stay allocated
		for id := range p.freshT {
			p.assume(fmt.Sprintf("(< %s (next %s))", id, hb))
		}
	}
	env := x.iterVars(p, x.loopVars(x.specEnv(p), phis, vals), li.head)
	for _, lt := range ls.Lets {
		sv, err := env.evalSV(lt.E)
		if err == nil {
			env = env.with(lt.Name, sv)
		}
	}
	for _, inv := range ls.Invs {
		s, err := env.evalBool(inv.E)
		if err == nil {
			p.assume(s)
		}
	}
	if ls.Decreases != nil {
		s, err := env.evalSV(ls.Decreases.E)
		if err == nil {
			v := x.fresh("variant")
			p.declare(v, "Int")
			p.assume(fmt.Sprintf("(= %s %s)", v, s.T))
			p.variants[li.ord] = v
		}
	} else {
		x.errorf("%s: %s has no decreases clause", x.cur.ct.Func, tag)
	}
	f.prev = from
	f.blk = li.head
	f.pc = len(phis)
	p.desc = append(p.desc, fmt.Sprintf("L%d", li.ord))
	return true
}

// wfOblig emits the well-formedness obligations for the current heap, then assumes them.
func (x *Exec) wfOblig(p *Path, where string) {
	x.oblig(p, where+"/wf", fmt.Sprintf("(wf %s)", p.H), x.cur.ct.Props, "")
	p.assume(fmt.Sprintf("(wf %s)", p.H))
	p.wfKnown = p.H
}

func (x *Exec) publishAll(p *Path) {
	if len(p.unpub) == 0 {
		return
	}
	kinds := fmt.Sprintf("(Kind %s)", p.H)
	for _, u := range p.unpub {
		parts := strings.SplitN(u, "|", 2)
		kinds = fmt.Sprintf("(store %s %s %s)", kinds, parts[1], parts[0])
	}
	p.pendingExt = "publish"
	x.upd(p, "Kind", kinds)
	p.unpub = nil
}

// exitNormal handles a return of the top-level function.
func (x *Exec) exitNormal(p *Path, results []SV, in ssa.Instruction) {
	x.cur.nexits++
	x.publishAll(p)
	ct := x.cur.ct
	env := x.specEnv(p)
	fn := x.cur.fn
	res := fn.Signature.Results()
	for i, r := range results {
		if len(results) == 1 {
			env = env.with("result", r)
		}
		env = env.with(fmt.Sprintf("result%d", i), r)
		if res.At(i).Name() != "" {
			env = env.with(res.At(i).Name(), r)
		}
	}
	for _, lt := range ct.PLets {
		sv, err := env.evalSV(lt.E)
		if err != nil {
			x.errorf("%s: plet %s: %v", ct.Func, lt.Name, err)
			continue
		}
		env = env.with(lt.Name, sv)
	}
	if p.spawnedAny {
		goal := "false"
		if p.waited {
			goal = "true"
		}
		x.oblig(p, "async/wait-before-return", goal, ct.Props, x.pos(in))
	}
	x.probe(p, "feasible/return")
	if ct.PanicsIff != nil {
		o := *env
		o.H = p.H0
		s, err := o.evalBool(ct.PanicsIff.E)
		if err != nil {
			x.errorf("%s: panics_iff: %v", ct.Func, err)
		} else if s != "false" {
			x.oblig(p, "panics_iff/complete", "(not "+s+")", ct.PanicsIff.Props, x.pos(in))
		}
	}
	var extra []*Clause
	if len(ct.Each)+len(ct.Others) > 0 && len(fn.Params) > 0 {
		first := fn.Params[0].Name()
		extra = append(extra, ct.Each...)
		for _, oc := range ct.Others {
			// for every other key the clause holds
			extra = append(extra, &Clause{Label: oc.C.Label, Props: oc.C.Props, E: &EQuant{Forall: true, Vars: []QVar{oc.Var},
				Body: &EBin{"==>", &EBin{"!=", &EIdent{oc.Var.Name}, &EIdent{first}}, oc.C.E}}})
		}
		// stability: what an earlier invocation established for another key survives this invocation
		for _, ec := range ct.Each {
			var qv []QVar
			ren := map[string]string{}
			for _, prm := range fn.Params {
				nm := "st_" + prm.Name()
				ty := map[Sort]string{SInt: "int", SBool: "bool", SStr: "str", SF64: "f64", SVal: "val"}[sortOf(prm.Type())]
				qv = append(qv, QVar{nm, ty})
				ren[prm.Name()] = nm
			}
			body := renameIdents(ec.E, ren)
			extra = append(extra, &Clause{Label: ec.Label + "-stable", Props: ec.Props, E: &EQuant{Forall: true, Vars: qv,
				Body: &EBin{"==>", &EBin{"&&", &EBin{"!=", &EIdent{ren[first]}, &EIdent{first}}, &EOld{body}}, body}}})
		}
		// the closure's own preconditions that do not depend on the arguments are preserved
		for _, rq := range ct.Requires {
			if !mentionsAny(rq.E, fn.Params) {
				extra = append(extra, &Clause{Label: rq.Label + "-preserved", Props: rq.Props, E: rq.E})
			}
		}
	}
	for _, ac := range ct.Appends {
		for _, c := range appendsExitClauses(ac, fn) {
			extra = append(extra, c)
		}
	}
	if len(ct.Appends) > 0 && len(ct.Each)+len(ct.Others) == 0 {
		for _, rq := range ct.Requires {
			if !mentionsAny(rq.E, fn.Params) {
				extra = append(extra, &Clause{Label: rq.Label + "-preserved", Props: rq.Props, E: rq.E})
			}
		}
	}
	for _, en := range append(append(append([]*Clause(nil), ct.Ensures...), ct.Returns...), extra...) {
		s, err := env.evalBool(en.E)
		if err != nil {
			x.errorf("%s: ensures %s: %v", ct.Func, en.Label, err)
			continue
		}
		if ct.Flags["skip="+en.Label] {
			x.assumptions[ct.Func+"/ensures/"+en.Label+" is NOT discharged (assumed; see DESIGN.md)"] = true
			continue
		}
		x.oblig(p, "ensures/"+en.Label, s, en.Props, x.pos(in))
	}
	if !ct.Flags["callbacks"] && !ct.Flags["pure"] && !p.trTouched {
		// no instruction on this path wrote the ghost trace (no callback invocation, no un-popped entries of a
		// callee, loops without callbacks keep it by construction): discharged structurally
		x.oblig(p, "exit/trace-unchanged", "true", ct.Props, x.pos(in))
	} else if !ct.Flags["callbacks"] && !ct.Flags["pure"] {
		x.oblig(p, "exit/trace-unchanged", fmt.Sprintf("(and (= (TrLen %s) (TrLen %s)) (= (TrA %s) (TrA %s)) (= (TrB %s) (TrB %s)))", p.H, p.H0, p.H, p.H0, p.H, p.H0), ct.Props, x.pos(in))
	}
	if ct.Flags["pure"] {
		goal := fmt.Sprintf("(= %s %s)", p.H, p.H0)
		if p.H != p.H0 {
			// allocations of ghost iterator cells are invisible to callers: nothing that existed may have changed
			ax := frameAxioms(&frameSet{}, p.H0, p.H)
			ax = append(ax, fmt.Sprintf("(= (TrLen %s) (TrLen %s))", p.H, p.H0), fmt.Sprintf("(= (TrA %s) (TrA %s))", p.H, p.H0), fmt.Sprintf("(= (TrB %s) (TrB %s))", p.H, p.H0))
			goal = "(and " + strings.Join(ax, " ") + ")"
		}
		x.oblig(p, "pure/heap-unchanged", goal, ct.Props, x.pos(in))
	} else if p.H != p.wfKnown && !ct.Flags["nowf"] {
		x.wfOblig(p, "exit")
		x.oblig(p, "exit/fresh-containers-own-fresh-storage", freshOwn(p.H0, p.H), ct.Props, x.pos(in))
	}
}

// exitPanic handles a panic (explicit or implicit) propagating out of the top-level function.
func (x *Exec) exitPanic(p *Path, why string, in ssa.Instruction) {
	x.cur.nexits++
	ct := x.cur.ct
	env := x.specEnv(p)
	o := *env
	o.H = p.H0
	cl := ct.PanicsIff
	if cl == nil {
		cl = ct.PanicsIf
	}
	goal := "false"
	var props []string = ct.Props
	if cl != nil {
		s, err := o.evalBool(cl.E)
		if err != nil {
			x.errorf("%s: panics clause: %v", ct.Func, err)
			return
		}
		goal = s
		props = cl.Props
	}
	p.desc = append(p.desc, "panic:"+why)
	x.oblig(p, "panics_iff/sound", goal, props, x.pos(in))
	if len(ct.OnPanic) > 0 {
		for _, c := range ct.OnPanic {
			s, err := env.evalBool(c.E)
			if err != nil {
				x.errorf("%s: on_panic %s: %v", ct.Func, c.Label, err)
				continue
			}
			x.oblig(p, "on_panic/"+c.Label, s, c.Props, x.pos(in))
		}
	}
}

// fork2 splits the path on cond: returns the path where cond holds (p itself) and pushes nothing;
// the caller receives the negated clone.
func (x *Exec) forkOn(p *Path, cond string) (yes, no *Path) {
	no = p.clone()
	p.assume(cond)
	no.assume("(not " + cond + ")")
	return p, no
}

// guard: continue only where cond holds; where it fails the program panics.
func (x *Exec) guard(p *Path, cond, why string, in ssa.Instruction) {
	_, bad := x.forkOn(p, cond)
	x.exitPanic(bad, why, in)
}

// calleeKey names the contract that a call would use ("" if unknown).
func (x *Exec) calleeKey(c *ssa.CallCommon) string {
	if c.IsInvoke() {
		it := c.Value.Type()
		switch {
		case isNamed(it, "field"):
			return "field." + c.Method.Name()
		case isNamed(it, "List"):
			return "(*list)." + c.Method.Name()
		case isNamed(it, "Object"):
			return "(*object)." + c.Method.Name()
		}
		return ""
	}
	if callee := c.StaticCallee(); callee != nil {
		if callee.Pkg != nil && callee.Pkg.Pkg.Name() == "anytype" {
			return fnKey(callee)
		}
		return externKey(callee)
	}
	return ""
}

// freshOwn: containers allocated after Ha own storage allocated after Ha (ownership discipline, DESIGN 8.1).
func freshOwn(Ha, Hb string) string {
	return fmt.Sprintf("(and (forall ((r Int)) (! (=> (and (>= r (next %s)) (= (select (Kind %s) r) KLIST)) (>= (select (Larr %s) r) (next %s))) :pattern ((select (Larr %s) r)))) "+
		"(forall ((r Int)) (! (=> (and (>= r (next %s)) (= (select (Kind %s) r) KOBJ)) (>= (select (Omap %s) r) (next %s))) :pattern ((select (Omap %s) r)))))",
		Ha, Hb, Hb, Ha, Hb, Ha, Hb, Hb, Ha, Hb)
}

// loopHasCallbacks: does the loop body call an unknown function value or a contract that may do so?
func (x *Exec) loopHasCallbacks(li *loopInfo) bool {
	var blocks []*ssa.BasicBlock
	for b := range li.body {
		blocks = append(blocks, b)
	}
	return x.blocksMayCallBack(blocks, map[*ssa.Function]bool{})
}

// blocksMayCallBack: may executing these blocks write the ghost trace (invoke a function value, or call a
// `callbacks` contract that is not popped)? Contract-less in-package callees are inlined by the executor, so
// their bodies are inspected recursively.
func (x *Exec) blocksMayCallBack(blocks []*ssa.BasicBlock, seen map[*ssa.Function]bool) bool {
	for _, b := range blocks {
		for _, in := range b.Instrs {
			ci, ok := in.(ssa.CallInstruction)
			if !ok {
				continue
			}
			c := ci.Common()
			if _, isB := c.Value.(*ssa.Builtin); isB {
				continue
			}
			key := x.calleeKey(c)
			if key == "" {
				return true // call through a function value
			}
			if ct := x.cf.ByFunc[key]; ct != nil && ct.Flags["callbacks"] {
				return true
			}
			if ct := x.cf.ByFunc[key]; ct == nil && !c.IsInvoke() {
				// contract-less in-package callee is inlined: conservatively assume it may call back
				if callee := c.StaticCallee(); callee != nil && callee.Pkg != nil && callee.Pkg.Pkg.Name() == "anytype" {
					switch fnKey(callee) {
					case "newString", "newBool", "newInt", "newFloat", "newNil":
					default:
						if seen[callee] {
							continue
						}
						seen[callee] = true
						if callee.Blocks == nil || x.blocksMayCallBack(callee.Blocks, seen) {
							return true
						}
					}
				}
			}
		}
	}
	return false
}

// seedFrame instantiates the frame axioms for the reference parameters of the function under
// verification, so that ground terms about them exist in the new heap (E-matching needs a seed).
func (x *Exec) seedFrame(p *Path, fs *frameSet, base, hb string) {
	var names []string
	for n := range x.cur.params {
		names = append(names, n)
	}
	sort.Strings(names)
	for _, n := range names {
		v := x.cur.params[n]
		if v.K != KTerm {
			continue
		}
		if fs.all {
			continue
		}
		if fs.tree {
			for _, c := range []string{"Kind", map[Sort]string{SRefL: "Lptr", SRefO: "Optr"}[v.S]} {
				if c != "" && (v.S == SRefL || v.S == SRefO) {
					p.assume(fmt.Sprintf("(=> (< %s (next %s)) (= (select (%s %s) %s) (select (%s %s) %s)))", v.T, base, c, hb, v.T, c, base, v.T))
				}
			}
			continue
		}
		notIn := func(set []string) string {
			cs := []string{fmt.Sprintf("(< %s (next %s))", v.T, base)}
			for _, s := range set {
				cs = append(cs, fmt.Sprintf("(not (= %s %s))", v.T, s))
			}
			if len(fs.paths) > 0 && set != nil {
				cs = append(cs, "(not "+fs.inPath(base, v.T)+")")
			}
			return "(and " + strings.Join(cs, " ") + ")"
		}
		emit := func(comps []string, cond string) {
			for _, c := range comps {
				p.assume(fmt.Sprintf("(=> %s (= (select (%s %s) %s) (select (%s %s) %s)))", cond, c, hb, v.T, c, base, v.T))
			}
		}
		switch v.S {
		case SRefL:
			emit([]string{"Kind", "Lptr"}, notIn(nil))
			emit([]string{"Larr", "Loff", "Llen", "Lcap"}, notIn(fs.lists))
		case SRefO:
			emit([]string{"Kind", "Optr"}, notIn(nil))
			emit([]string{"Omap"}, notIn(fs.objs))
		default:
			continue
		}
		if v.S == SRefL && !fs.all {
			arr := fmt.Sprintf("(select (Larr %s) %s)", base, v.T)
			conds := []string{fmt.Sprintf("(< %s (next %s))", arr, base)}
			for _, l := range fs.lists {
				conds = append(conds, fmt.Sprintf("(not (= %s (select (Larr %s) %s)))", arr, base, l))
			}
			for _, a := range fs.arrs {
				conds = append(conds, fmt.Sprintf("(not (= %s %s))", arr, a))
			}
			if len(fs.paths) > 0 {
				conds = append(conds, "(not "+fs.inPath(base, v.T)+")", fmt.Sprintf("(= (select (Kind %s) %s) KLIST)", base, v.T))
			}
			p.assume(fmt.Sprintf("(=> (and %s) (= (select (Mem %s) %s) (select (Mem %s) %s)))", strings.Join(conds, " "), hb, arr, base, arr))
		}
	}
}

// renameIdents returns a copy of e with identifiers renamed.
func renameIdents(e Expr, ren map[string]string) Expr {
	switch n := e.(type) {
	case *EIdent:
		if r, ok := ren[n.Name]; ok {
			return &EIdent{r}
		}
		return n
	case *EBin:
		return &EBin{n.Op, renameIdents(n.L, ren), renameIdents(n.R, ren)}
	case *EUn:
		return &EUn{n.Op, renameIdents(n.X, ren)}
	case *ECall:
		var as []Expr
		for _, a := range n.Args {
			as = append(as, renameIdents(a, ren))
		}
		return &ECall{n.Fn, as}
	case *ESel:
		return &ESel{renameIdents(n.X, ren), n.Field}
	case *EIndex:
		return &EIndex{renameIdents(n.X, ren), renameIdents(n.I, ren)}
	case *ESlice:
		var lo, hi Expr
		if n.Lo != nil {
			lo = renameIdents(n.Lo, ren)
		}
		if n.Hi != nil {
			hi = renameIdents(n.Hi, ren)
		}
		return &ESlice{renameIdents(n.X, ren), lo, hi}
	case *EQuant:
		var tr [][]Expr
		for _, t := range n.Trig {
			var ts []Expr
			for _, te := range t {
				ts = append(ts, renameIdents(te, ren))
			}
			tr = append(tr, ts)
		}
		return &EQuant{n.Forall, n.Vars, tr, renameIdents(n.Body, ren)}
	case *EOld:
		return &EOld{renameIdents(n.X, ren)}
	case *ECond:
		return &ECond{renameIdents(n.C, ren), renameIdents(n.A, ren), renameIdents(n.B, ren)}
	}
	return e
}

func mentionsAny(e Expr, params []*ssa.Parameter) bool {
	names := map[string]bool{}
	for _, p := range params {
		names[p.Name()] = true
	}
	found := false
	var walk func(Expr)
	walk = func(e Expr) {
		switch n := e.(type) {
		case *EIdent:
			if names[n.Name] {
				found = true
			}
		case *EBin:
			walk(n.L)
			walk(n.R)
		case *EUn:
			walk(n.X)
		case *ECall:
			for _, a := range n.Args {
				walk(a)
			}
		case *ESel:
			walk(n.X)
		case *EIndex:
			walk(n.X)
			walk(n.I)
		case *ESlice:
			walk(n.X)
			if n.Lo != nil {
				walk(n.Lo)
			}
			if n.Hi != nil {
				walk(n.Hi)
			}
		case *EQuant:
			walk(n.Body)
		case *EOld:
			walk(n.X)
		case *ECond:
			walk(n.C)
			walk(n.A)
			walk(n.B)
		}
	}
	walk(e)
	return found
}

// substWord replaces the identifier `name` in spec source text.
func substWord(src, name, repl string) string {
	return regexp.MustCompile(`\b`+regexp.QuoteMeta(name)+`\b`).ReplaceAllString(src, repl)
}

// appendsExitClauses: what one invocation of a sequence-accumulating closure must establish.
func appendsExitClauses(ac *AppendsClause, fn *ssa.Function) []*Clause {
	S := ac.SliceSrc
	var out []*Clause
	mk := func(label, src string) {
		e, err := parseSpec(src)
		if err != nil {
			panic(fmt.Sprintf("appends clause: %v in %q", err, src))
		}
		out = append(out, &Clause{Label: label, Src: src, E: e, Props: ac.Props, Line: ac.Line})
	}
	mk("appends-one", fmt.Sprintf("len(%s) == old(len(%s)) + 1", S, S))
	mk("appends-prefix", fmt.Sprintf("forall ap_j int :: 0 <= ap_j && ap_j < old(len(%s)) ==> %s[ap_j] == old(%s[ap_j])", S, S, S))
	mk("appends-fact", substWord(ac.FactSrc, ac.Var, fmt.Sprintf("(%s[old(len(%s))])", S, S)))
	// stability: what earlier invocations established for earlier elements survives this invocation
	fact := substWord(ac.FactSrc, ac.Var, fmt.Sprintf("(%s[ap_k])", S))
	qv := "ap_k int"
	for _, prm := range fn.Params {
		ty := map[Sort]string{SInt: "int", SBool: "bool", SStr: "str", SF64: "f64", SVal: "val"}[sortOf(prm.Type())]
		fact = substWord(fact, prm.Name(), "st_"+prm.Name())
		qv += ", st_" + prm.Name() + " " + ty
	}
	mk("appends-stable", fmt.Sprintf("forall %s :: 0 <= ap_k && ap_k < old(len(%s)) && old(%s) ==> %s", qv, S, fact, fact))
	return out
}
