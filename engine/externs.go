package main

// Calls leaving the package: strings.Builder (ghost Str cell), fmt, and
// everything else through `//@ extern` contracts (assumed, listed in evidence).

import (
	"fmt"
	"go/types"

	"golang.org/x/tools/go/ssa"
)

func externKey(fn *ssa.Function) string {
	pkg := ""
	if fn.Pkg != nil {
		pkg = fn.Pkg.Pkg.Path()
	}
	if recv := fn.Signature.Recv(); recv != nil {
		rt := recv.Type()
		if p, ok := rt.(*types.Pointer); ok {
			if n, ok := p.Elem().(*types.Named); ok {
				return "(*" + n.Obj().Pkg().Path() + "." + n.Obj().Name() + ")." + fn.Name()
			}
		}
		if n, ok := rt.(*types.Named); ok {
			return "(" + n.Obj().Pkg().Path() + "." + n.Obj().Name() + ")." + fn.Name()
		}
	}
	return pkg + "." + fn.Name()
}

func (x *Exec) callExtern(p *Path, callee *ssa.Function, _ string, args []SV, res ssa.Value, in ssa.Instruction, work *[]*Path) bool {
	key := externKey(callee)
	bindRes := func(sv SV) {
		if res != nil {
			x.bind(p, res, sv)
		}
	}
	switch key {
	case "(*strings.Builder).WriteRune", "(*strings.Builder).WriteString", "(*strings.Builder).WriteByte", "(*strings.Builder).Reset", "(*strings.Builder).String", "(*strings.Builder).Len":
		b := args[0]
		if b.K != KLoc {
			x.errorf("%s: strings.Builder receiver is not a cell", x.cur.ct.Func)
			return false
		}
		cur := fmt.Sprintf("(select (CStr %s) %s)", p.H, b.Loc.Cell)
		switch callee.Name() {
		case "WriteRune":
			x.store1(p, "CStr", b.Loc.Cell, fmt.Sprintf("(app %s (runeStr %s))", cur, args[1].T))
			bindRes(SV{K: KTuple, Tup: []SV{term("0", SInt), term("VNil", SVal)}})
		case "WriteByte":
			x.store1(p, "CStr", b.Loc.Cell, fmt.Sprintf("(app %s (byteStr %s))", cur, args[1].T))
			bindRes(term("VNil", SVal))
		case "WriteString":
			x.store1(p, "CStr", b.Loc.Cell, fmt.Sprintf("(app %s %s)", cur, args[1].T))
			bindRes(SV{K: KTuple, Tup: []SV{term("0", SInt), term("VNil", SVal)}})
		case "Reset":
			x.store1(p, "CStr", b.Loc.Cell, "str_empty")
		case "String":
			bindRes(x.define(p, "bs", term(cur, SStr)))
		case "Len":
			bindRes(term("(slen "+cur+")", SInt))
		}
		if p.wfKnown != "" {
			p.assume(fmt.Sprintf("(wf %s)", p.H)) // CStr is not mentioned by wf
			p.wfKnown = p.H
		}
		return true
	case "(*sync.WaitGroup).Add", "(*sync.WaitGroup).Done", "(*sync.WaitGroup).Wait":
		w := args[0]
		if w.K != KLoc {
			x.errorf("%s: WaitGroup receiver is not a cell", x.cur.ct.Func)
			return false
		}
		cur := fmt.Sprintf("(select (CInt %s) %s)", p.H, w.Loc.Cell)
		switch callee.Name() {
		case "Add":
			x.guard(p, fmt.Sprintf("(>= (+ %s %s) 0)", cur, args[1].T), "negative WaitGroup counter", in)
			x.store1(p, "CInt", w.Loc.Cell, fmt.Sprintf("(+ %s %s)", cur, args[1].T))
		case "Done":
			x.guard(p, fmt.Sprintf("(> %s 0)", cur), "negative WaitGroup counter", in)
			x.store1(p, "CInt", w.Loc.Cell, fmt.Sprintf("(- %s 1)", cur))
		case "Wait":
			// every minted token must have been handed to a goroutine that Dones it (else Wait blocks forever)
			x.oblig(p, "async/wait-all-tokens-consumed", fmt.Sprintf("(= %s 0)", cur), x.cur.ct.Props, x.pos(in))
			p.assume(fmt.Sprintf("(= %s 0)", cur))
			p.waited = true
		}
		return true
	case "(*sync.Mutex).Lock", "(*sync.Mutex).Unlock":
		m := args[0]
		if m.K != KLoc {
			x.errorf("%s: Mutex receiver is not a cell", x.cur.ct.Func)
			return false
		}
		cur := fmt.Sprintf("(select (CBool %s) %s)", p.H, m.Loc.Cell)
		if callee.Name() == "Lock" {
			x.oblig(p, "async/lock-not-held", "(not "+cur+")", x.cur.ct.Props, x.pos(in))
			x.store1(p, "CBool", m.Loc.Cell, "true")
		} else {
			x.guard(p, cur, "unlock of unlocked mutex", in)
			x.store1(p, "CBool", m.Loc.Cell, "false")
		}
		return true
	case "fmt.Sprintf":
		// format + varargs: result is an uninterpreted function of the format and the (up to 3) arguments
		va := args[1]
		parts := []string{args[0].T}
		for i := 0; i < 3; i++ {
			if va.K == KSlice {
				parts = append(parts, fmt.Sprintf("(ite (< %d %s) (select (select (Mem %s) %s) (+ %s %d)) VNil)", i, va.Len, p.H, va.Arr, va.Off, i))
			} else {
				parts = append(parts, "VNil")
			}
		}
		bindRes(x.define(p, "fmt", term(fmt.Sprintf("(sprintf %s %s %s %s)", parts[0], parts[1], parts[2], parts[3]), SStr)))
		return true
	case "fmt.Errorf":
		n := x.fresh("err")
		p.declare(n, "Int")
		res := "(VErr " + n + ")"
		// ghost: the line number an error message cites is its last integer argument (-1: none)
		va := args[1]
		if va.K == KSlice {
			last := fmt.Sprintf("(select (select (Mem %s) %s) (+ %s (- %s 1)))", p.H, va.Arr, va.Off, va.Len)
			p.assume(fmt.Sprintf("(= (errLine %s) (ite (and (> %s 0) ((_ is VInt) %s)) (vint %s) (- 1)))", res, va.Len, last, last))
		}
		bindRes(SV{K: KTerm, T: res, S: SVal})
		return true
	}
	ct := x.cf.ByFunc[key]
	if ct == nil {
		x.errorf("%s: unknown extern %s at %s", x.cur.ct.Func, key, x.pos(in))
		return false
	}
	x.assumptions["extern contract "+key] = true
	vars := map[string]SV{}
	sig := callee.Signature
	off := 0
	if sig.Recv() != nil {
		vars["recv"] = args[0]
		off = 1
	}
	for i := 0; i < sig.Params().Len(); i++ {
		nm := sig.Params().At(i).Name()
		if nm == "" || nm == "_" {
			nm = fmt.Sprintf("a%d", i)
		}
		vars[nm] = args[i+off]
		vars[fmt.Sprintf("a%d", i)] = args[i+off]
	}
	r, ok := x.applyContract(p, ct, vars, sig.Results(), x.siteName(p, key), in, work)
	if !ok {
		return false
	}
	bindRes(r)
	return true
}
