; ---------------------------------------------------------------------------
; C12: normalisation of inserted values (parseVal) -- spec taken from the
; property text: all integer widths -> int of the same value, float32 ->
; float64, string/bool/nil as is, Lists/Objects stored as is (by reference),
; the seven native slice / map flavours -> fresh containers, anything else
; rejected.
; ---------------------------------------------------------------------------

; flavours: 1 any, 2 Object, 3 List, 4 string, 5 bool, 6 int, 7 float64
(define-fun flavOK ((f Int)) Bool (and (<= 1 f) (<= f 7)))

; supp(a): a is accepted by parseVal. For native slices / maps acceptance depends on their
; contents; it is an uninterpreted function of the slice / map value, i.e. contents of native
; arguments are assumed not to change during one API call (listed assumption). The link to the
; contents is stated where NewListFrom / NewObjectFrom are specified.
(declare-fun supp (Val) Bool)
(assert (forall ((a Val)) (! (=> (not (or ((_ is VSl) a) ((_ is VMp) a)))
  (= (supp a)
     (or ((_ is VNil) a) ((_ is VStr) a) ((_ is VBool) a) ((_ is VInt) a) ((_ is VFloat) a) ((_ is VF32) a)
         (and ((_ is VIntK) a) (<= 1 (vkk a)) (<= (vkk a) 9))
         ((_ is VList) a) ((_ is VObj) a))))
  :pattern ((supp a)))))
(assert (forall ((a Val)) (! (=> (and ((_ is VSl) a) (supp a)) (flavOK (slf a))) :pattern ((supp a)))))
(assert (forall ((a Val)) (! (=> (and ((_ is VMp) a) (supp a)) (flavOK (mpf a))) :pattern ((supp a)))))

; wrapsS(f, a): field f is the (shallow) normalisation of Go value a
(define-fun wrapsS ((f Val) (a Val)) Bool
  (ite ((_ is VNil) a)   (= f WNil)
  (ite ((_ is VStr) a)   (= f (WStr (vstr a)))
  (ite ((_ is VBool) a)  (= f (WBool (vbool a)))
  (ite ((_ is VInt) a)   (= f (WInt (vint a)))
  (ite ((_ is VIntK) a)  (= f (WInt (wrap64 (vkv a))))     ; same value when representable; uint > MaxInt wraps (Go conversion)
  (ite ((_ is VFloat) a) (= f (WFloat (vfloat a)))
  (ite ((_ is VF32) a)   (= f (WFloat (f32to64 (vf32 a))))
  (ite ((_ is VList) a)  (= f a)
  (ite ((_ is VObj) a)   (= f a)
  (ite ((_ is VSl) a)    ((_ is VList) f)
  (ite ((_ is VMp) a)    ((_ is VObj) f)
       false))))))))))))

; okNative(a): the elements of a native slice / map argument are themselves well-typed arguments.
; Like supp() it is a function of the slice / map value: native arguments are assumed not to be
; modified during an API call, so the link to the contents below holds in every heap of the call.
(declare-fun okNative (Val) Bool)
; okArg(h, a): an argument value is well-typed in h (type invariant of inputs; shallow)
(define-fun okArg ((h Heap) (a Val)) Bool
  (and (okVal h a)
       (=> ((_ is VIntK) a) (and (<= 1 (vkk a)) (<= (vkk a) 9)
            (=> (= (vkk a) 1) (inInt (vkv a)))
            (=> (= (vkk a) 2) (and (<= (- 2147483648) (vkv a)) (<= (vkv a) 2147483647)))
            (=> (= (vkk a) 3) (and (<= (- 32768) (vkv a)) (<= (vkv a) 32767)))
            (=> (= (vkk a) 4) (and (<= (- 128) (vkv a)) (<= (vkv a) 127)))
            (=> (= (vkk a) 5) (and (<= 0 (vkv a)) (<= (vkv a) 18446744073709551615)))
            (=> (= (vkk a) 6) (and (<= 0 (vkv a)) (<= (vkv a) 18446744073709551615)))
            (=> (= (vkk a) 7) (and (<= 0 (vkv a)) (<= (vkv a) 4294967295)))
            (=> (= (vkk a) 8) (and (<= 0 (vkv a)) (<= (vkv a) 65535)))
            (=> (= (vkk a) 9) (and (<= 0 (vkv a)) (<= (vkv a) 255)))))
       (=> ((_ is VInt) a) (inInt (vint a)))
       (not ((_ is WNil) a)) (not ((_ is WStr) a)) (not ((_ is WBool) a)) (not ((_ is WInt) a)) (not ((_ is WFloat) a))
       (=> ((_ is VSl) a) (okNative a))
       (=> ((_ is VMp) a) (okNative a))
       (=> ((_ is VSl) a) (= (slo a) 0))   ; re-based (no Go code observes a slice's offset)
       (=> ((_ is VSl) a) (and (<= 0 (sll a)) (<= (sll a) (slc a)) (<= (slc a) MAXINT) (<= 0 (slo a)) (< 0 (sla a)) (< (sla a) (next h))
            (= (select (Kind h) (sla a)) KNARR)))
       (=> ((_ is VMp) a) (and (<= 0 (mpi a)) (< (mpi a) (next h))
            (=> (< 0 (mpi a)) (= (select (Kind h) (mpi a)) KNMAP))))))

; element k of a native slice value
; (the element converted to `any`: a typed element is re-wrapped by its flavour, exactly as the
; engine reads typed slots)
(define-fun rawAt ((h Heap) (v Val) (k Int)) Val
  (let ((raw (select (select (Mem h) (sla v)) (+ (slo v) k))))
    (ite (= (slf v) 4) (VStr (vstr raw)) (ite (= (slf v) 5) (VBool (vbool raw))
    (ite (= (slf v) 6) (VInt (vint raw)) (ite (= (slf v) 7) (VFloat (vfloat raw)) raw))))))
; typed native slices / maps (flavours 2..7) hold only supported element types
(assert (forall ((a Val)) (! (=> (and ((_ is VSl) a) (<= 2 (slf a)) (<= (slf a) 7)) (supp a)) :pattern ((supp a)))))
(assert (forall ((a Val)) (! (=> (and ((_ is VMp) a) (<= 2 (mpf a)) (<= (mpf a) 7)) (supp a)) :pattern ((supp a)))))

(define-fun natVal ((h Heap) (a Val) (k Str)) Val
  (let ((raw (select (select (MVal h) (mpi a)) k)))
    (ite (= (mpf a) 4) (VStr (vstr raw)) (ite (= (mpf a) 5) (VBool (vbool raw))
    (ite (= (mpf a) 6) (VInt (vint raw)) (ite (= (mpf a) 7) (VFloat (vfloat raw)) raw))))))
; contents of native arguments (stable during the call): typing and acceptance of the elements
(define-fun natElem ((h Heap) (a Val) (j Int)) Val
  (let ((raw (select (select (Mem h) (sla a)) j)))
    (ite (= (slf a) 4) (VStr (vstr raw)) (ite (= (slf a) 5) (VBool (vbool raw))
    (ite (= (slf a) 6) (VInt (vint raw)) (ite (= (slf a) 7) (VFloat (vfloat raw)) raw))))))
(assert (forall ((h Heap) (a Val) (j Int)) (! (=> (gh h) (=> (and ((_ is VSl) a) (okNative a) (<= (slo a) j) (< j (+ (slo a) (sll a)))) (okArg h (natElem h a j)))) :pattern ((okNative a) (select (select (Mem h) (sla a)) j)))))
(assert (forall ((h Heap) (a Val) (j Int)) (! (=> (gh h) (=> (and ((_ is VSl) a) (supp a) (<= (slo a) j) (< j (+ (slo a) (sll a)))) (supp (natElem h a j)))) :pattern ((supp a) (select (select (Mem h) (sla a)) j)))))
(declare-fun badAt (Val) Int)   ; witness position of a rejected element
(assert (forall ((h Heap) (a Val)) (! (=> (gh h) (=> (and ((_ is VSl) a) (flavOK (slf a)) (not (supp a))) (and (<= (slo a) (badAt a)) (< (badAt a) (+ (slo a) (sll a))) (not (supp (natElem h a (badAt a))))))) :pattern ((supp a) (Mem h)))))
(declare-fun badKey (Val) Str)
(assert (forall ((h Heap) (a Val) (k Str)) (! (=> (gh h) (=> (and ((_ is VMp) a) (okNative a) (select (select (MDom h) (mpi a)) k)) (okArg h (natVal h a k)))) :pattern ((okNative a) (select (select (MVal h) (mpi a)) k)))))
(assert (forall ((h Heap) (a Val) (k Str)) (! (=> (gh h) (=> (and ((_ is VMp) a) (supp a) (select (select (MDom h) (mpi a)) k)) (supp (natVal h a k)))) :pattern ((supp a) (select (select (MVal h) (mpi a)) k)))))
(assert (forall ((h Heap) (a Val)) (! (=> (gh h) (=> (and ((_ is VMp) a) (flavOK (mpf a)) (not (supp a))) (and (select (select (MDom h) (mpi a)) (badKey a)) (not (supp (natVal h a (badKey a))))))) :pattern ((supp a) (MVal h)))))
(define-fun domAt ((h Heap) (a Val) (k Str)) Bool (select (select (MDom h) (mpi a)) k))
; natively typed slices / maps of string, bool, int, float64 hold values of that type (Go's typing)
(assert (forall ((a Val)) (! (=> (and ((_ is VSl) a) (<= 4 (slf a)) (<= (slf a) 7)) (okNative a)) :pattern ((okNative a)))))
(assert (forall ((a Val)) (! (=> (and ((_ is VMp) a) (<= 4 (mpf a)) (<= (mpf a) 7)) (okNative a)) :pattern ((okNative a)))))

; ---------------------------------------------------------------------------
; C13: one level of the native conversion.  nat1(mark, src, dst): dst (what native() returns for the
; Go value src) is a native []any / map[string]any allocated at or above mark when src is a List /
; an Object - never a container of the library -, and src itself otherwise.
; ---------------------------------------------------------------------------
(define-fun nat1 ((mark Int) (src Val) (dst Val)) Bool
  (ite ((_ is VList) src) (and ((_ is VSl) dst) (= (slf dst) 1) (>= (sla dst) mark) (= (slo dst) 0))
  (ite ((_ is VObj) src)  (and ((_ is VMp) dst) (= (mpf dst) 1) (>= (mpi dst) mark))
       (= dst src))))

; C11: g is what Get / GetTF return for the field that stores the Go value a (the normalisation of a)
(define-fun getWraps ((h Heap) (g Val) (a Val)) Bool
  (ite ((_ is VNil) a)   (= g VNil)
  (ite ((_ is VIntK) a)  (= g (VInt (wrap64 (vkv a))))
  (ite ((_ is VF32) a)   (= g (VFloat (f32to64 (vf32 a))))
  (ite ((_ is VList) a)  (= g (select (Lptr h) (impl (vlref a))))
  (ite ((_ is VObj) a)   (= g (select (Optr h) (impl (voref a))))
  (ite ((_ is VSl) a)    ((_ is VList) g)
  (ite ((_ is VMp) a)    ((_ is VObj) g)
       (= g a)))))))))
