; ---------------------------------------------------------------------------
; vcgo prelude: sorts, values, heap.   (see DESIGN.md section 5)
; ---------------------------------------------------------------------------
(declare-sort Str 0)
(declare-sort F64 0)

; One datatype for every Go interface value that occurs in the package
; (any, field, List, Object, error) and for pointers to the immutable scalar
; wrappers (*atString ... *atNil, modelled by value).
(declare-datatypes ((Val 0)) ((
  (VNil)                                   ; nil interface
  (VStr (vstr Str)) (VBool (vbool Bool)) (VInt (vint Int)) (VFloat (vfloat F64))
  (VIntK (vkk Int) (vkv Int))              ; int64 int32 int16 int8 uint uint64 uint32 uint16 uint8 (kind 1..9)
  (VF32 (vf32 F64))                        ; float32 (payload: exact float64 image)
  (VList (vlref Int)) (VObj (voref Int))   ; containers: reference of the *outer* value
  (WNil) (WStr (wstr Str)) (WBool (wbool Bool)) (WInt (wint Int)) (WFloat (wfloat F64)) ; *atX wrappers
  (VSl (slf Int) (sla Int) (slo Int) (sll Int) (slc Int))   ; native slice: flavour, array, offset, len, cap
  (VMp (mpf Int) (mpi Int))                ; native map: flavour, map id
  (VErr (verr Int))                        ; non-nil error
  (VOther (vtag Int))                      ; any other dynamic type
)))

; Heap (Dafny/Boogie style record of arrays). References, array ids, map ids
; and cell ids are all Ints handed out by one allocator (next).
(declare-datatypes ((Heap 0)) ((
  (mkHeap
    (Larr (Array Int Int)) (Loff (Array Int Int)) (Llen (Array Int Int)) (Lcap (Array Int Int))
    (Lptr (Array Int Val))
    (Omap (Array Int Int)) (Optr (Array Int Val))
    (Mem  (Array Int (Array Int Val)))
    (MDom (Array Int (Array Str Bool))) (MVal (Array Int (Array Str Val))) (MCard (Array Int Int))
    (CInt (Array Int Int)) (CBool (Array Int Bool)) (CVal (Array Int Val)) (CStr (Array Int Str)) (CF64 (Array Int F64))
    (Kind (Array Int Int))
    (next Int)
    (TrLen Int) (TrA (Array Int Val)) (TrB (Array Int Val))   ; ghost trace of callback invocations
  ))))

; gh(h): h is a heap of the execution under analysis (asserted by the engine for every heap constant it
; introduces). Every axiom that states a fact about heaps is relativised to gh: such facts hold of
; reachable heaps, not of every value of the datatype (an unguarded version is inconsistent).
(declare-fun gh (Heap) Bool)

; ---- numbers ---------------------------------------------------------------
(define-fun MAXINT () Int 9223372036854775807)
(define-fun MININT () Int (- 9223372036854775808))
(define-fun inInt ((x Int)) Bool (and (<= MININT x) (<= x MAXINT)))
(define-fun wrap64 ((x Int)) Int (- (mod (+ x 9223372036854775808) 18446744073709551616) 9223372036854775808))
; Go truncated division / remainder on mathematical ints
; Go's wrapping int multiplication (opaque: only congruence is used)
(declare-fun wmul (Int Int) Int)
(define-fun godiv ((a Int) (b Int)) Int (ite (>= a 0) (div a b) (- (div (- a) b))))
(define-fun gomod ((a Int) (b Int)) Int (- a (* b (godiv a b))))


; allocation kinds
(define-fun KLIST () Int 1)
(define-fun KOBJ  () Int 2)
(define-fun KARR  () Int 3)
(define-fun KMAP  () Int 4)
(define-fun KCELL () Int 5)
(define-fun KDLIST () Int 6)   ; derived (user) type embedding a List
(define-fun KDOBJ  () Int 7)   ; derived (user) type embedding an Object
(define-fun KNARR () Int 10)  ; native backing array ([]any, []int ...)
(define-fun KNMAP () Int 11)  ; native map
(define-fun KNEW () Int 8)    ; container under construction (not yet published)
(define-fun KDEAD () Int 9)    ; non-escaping temporary whose storage was adopted

; impl(o): the embedded *list / *object of an outer value (identity for plain ones)
(declare-fun impl (Int) Int)
(declare-fun plain (Int) Bool)           ; dynamic type is exactly *list / *object

; the seven stored kinds
(define-fun isField ((v Val)) Bool
  (or ((_ is WNil) v) ((_ is WStr) v) ((_ is WBool) v) ((_ is WInt) v) ((_ is WFloat) v)
      ((_ is VList) v) ((_ is VObj) v)))

; Type enum of the library
(define-fun TUndef () Int 0) (define-fun TNil () Int 1) (define-fun TObject () Int 2) (define-fun TList () Int 3)
(define-fun TString () Int 4) (define-fun TBool () Int 5) (define-fun TInt () Int 6) (define-fun TFloat () Int 7)
(define-fun kindOf ((v Val)) Int
  (ite ((_ is WNil) v) TNil (ite ((_ is VObj) v) TObject (ite ((_ is VList) v) TList
  (ite ((_ is WStr) v) TString (ite ((_ is WBool) v) TBool (ite ((_ is WInt) v) TInt
  (ite ((_ is WFloat) v) TFloat TUndef))))))))

; slot k of list r
(define-fun elemL ((h Heap) (r Int) (k Int)) Val
  (select (select (Mem h) (select (Larr h) r)) (+ (select (Loff h) r) k)))
(define-fun lenL ((h Heap) (r Int)) Int (select (Llen h) r))

; what Get returns for a stored field (getVal)
(define-fun valOf ((h Heap) (v Val)) Val
  (ite ((_ is WStr) v) (VStr (wstr v))
  (ite ((_ is WBool) v) (VBool (wbool v))
  (ite ((_ is WInt) v) (VInt (wint v))
  (ite ((_ is WFloat) v) (VFloat (wfloat v))
  (ite ((_ is VList) v) (select (Lptr h) (impl (vlref v)))
  (ite ((_ is VObj) v) (select (Optr h) (impl (voref v)))
  VNil)))))))

; a container value is well-typed in h: its implementation is a live container
(define-fun okVal ((h Heap) (v Val)) Bool
  (and (=> ((_ is WInt) v) (inInt (wint v)))
       (=> ((_ is VList) v) (and (= (select (Kind h) (impl (vlref v))) KLIST)
                                 (= (select (Lptr h) (impl (vlref v))) v)))
       (=> ((_ is VObj) v)  (and (= (select (Kind h) (impl (voref v))) KOBJ)
                                 (= (select (Optr h) (impl (voref v))) v)))))

; representation invariant of one list
(define-fun invL ((h Heap) (r Int)) Bool
  (and (< 0 r) (< r (next h))
       (= (select (Kind h) r) KLIST)
       (<= 0 (select (Llen h) r)) (<= (select (Llen h) r) (select (Lcap h) r)) (<= (select (Lcap h) r) MAXINT)
       (= (select (Loff h) r) 0)     ; list spines start at offset 0 (see DESIGN 5.2)
       (< 0 (select (Larr h) r)) (< (select (Larr h) r) (next h))
       (= (select (Kind h) (select (Larr h) r)) KARR)
       ((_ is VList) (select (Lptr h) r))
       (= (impl (vlref (select (Lptr h) r))) r)
       (forall ((j Int)) (! (=> (and (<= (select (Loff h) r) j) (< j (+ (select (Loff h) r) (select (Llen h) r))))
                                (and (isField (select (select (Mem h) (select (Larr h) r)) j))
                                     (okVal h (select (select (Mem h) (select (Larr h) r)) j))))
                            :pattern ((select (select (Mem h) (select (Larr h) r)) j))))))

; representation invariant of one object
(define-fun invO ((h Heap) (r Int)) Bool
  (and (< 0 r) (< r (next h))
       (= (select (Kind h) r) KOBJ)
       (< 0 (select (Omap h) r)) (< (select (Omap h) r) (next h))
       (= (select (Kind h) (select (Omap h) r)) KMAP)
       ((_ is VObj) (select (Optr h) r))
       (= (impl (voref (select (Optr h) r))) r)
       (forall ((k Str)) (! (=> (select (select (MDom h) (select (Omap h) r)) k)
                                (and (isField (select (select (MVal h) (select (Omap h) r)) k))
                                     (okVal h (select (select (MVal h) (select (Omap h) r)) k))))
                            :pattern ((select (select (MVal h) (select (Omap h) r)) k))))))

; global well-formedness: every live container satisfies its invariant, live
; lists own distinct backing arrays, live objects own distinct maps, nothing
; is allocated at or above the watermark, plain containers implement themselves.
(define-fun wf ((h Heap)) Bool
  (and (< 0 (next h))
       (= (select (MCard h) 0) 0)   ; the nil map is empty
       (forall ((k Str)) (! (not (select (select (MDom h) 0) k)) :pattern ((select (select (MDom h) 0) k))))
       (forall ((r Int)) (! (=> (= (select (Kind h) r) KLIST) (invL h r)) :pattern ((select (Kind h) r))))
       (forall ((r Int)) (! (=> (= (select (Kind h) r) KOBJ) (invO h r)) :pattern ((select (Kind h) r))))
       (forall ((r Int)) (! (=> (>= r (next h)) (= (select (Kind h) r) 0)) :pattern ((select (Kind h) r))))
       (forall ((r Int)) (! (=> (<= r 0) (= (select (Kind h) r) 0)) :pattern ((select (Kind h) r))))
       (forall ((r1 Int) (r2 Int)) (! (=> (and (= (select (Kind h) r1) KLIST) (= (select (Kind h) r2) KLIST) (not (= r1 r2)))
                                          (not (= (select (Larr h) r1) (select (Larr h) r2))))
                                      :pattern ((select (Larr h) r1) (select (Larr h) r2))))
       (forall ((r1 Int) (r2 Int)) (! (=> (and (= (select (Kind h) r1) KOBJ) (= (select (Kind h) r2) KOBJ) (not (= r1 r2)))
                                          (not (= (select (Omap h) r1) (select (Omap h) r2))))
                                      :pattern ((select (Omap h) r1) (select (Omap h) r2))))))

(assert (forall ((r Int)) (! (=> (plain r) (= (impl r) r)) :pattern ((plain r)))))
(assert (forall ((r Int)) (! (=> (plain r) (= (impl r) r)) :pattern ((impl r)))))

; float64: uninterpreted, with a total preorder on the values that occur
(declare-fun fle (F64 F64) Bool)
(define-fun flt ((a F64) (b F64)) Bool (not (fle b a)))
(define-fun feq ((a F64) (b F64)) Bool (and (fle a b) (fle b a)))
(declare-fun fadd (F64 F64) F64)
(declare-fun fsub (F64 F64) F64)
(declare-fun fmul (F64 F64) F64)
(declare-fun fdiv (F64 F64) F64)
(declare-fun fneg (F64) F64)
(declare-fun i2f (Int) F64)
(declare-fun f32to64 (F64) F64)
(declare-fun fconst (Int) F64)         ; float constants by engine-assigned index
(declare-fun fabs (F64) F64)
(declare-fun pow10 (Int) F64)
(declare-fun isNaN (F64) Bool)
(assert (forall ((a F64)) (! (fle a a) :pattern ((fle a a)))))
(assert (forall ((a F64) (b F64)) (! (or (fle a b) (fle b a)) :pattern ((fle a b)))))
(assert (forall ((a F64) (b F64) (c F64)) (! (=> (and (fle a b) (fle b c)) (fle a c)) :pattern ((fle a b) (fle b c)))))

; Go == on interface values: identical dynamic type and equal payload (floats numerically)
(define-fun anyEq ((a Val) (b Val)) Bool
  (ite (and ((_ is VFloat) a) ((_ is VFloat) b)) (feq (vfloat a) (vfloat b))
  (ite (and ((_ is VF32) a) ((_ is VF32) b)) (feq (vf32 a) (vf32 b))
  (ite (and ((_ is WFloat) a) ((_ is WFloat) b)) false   ; distinct wrapper pointers are never compared in the package
       (= a b)))))

; result of an (assumed pure) callback as a function of its arguments
(declare-fun cbret (Val Val) Val)

; ---- strings ---------------------------------------------------------------
(declare-fun slen (Str) Int)
(declare-fun at (Str Int) Int)
(declare-fun sub (Str Int Int) Str)
(declare-fun app (Str Str) Str)
(declare-fun runeStr (Int) Str)
(declare-fun byteStr (Int) Str)
(declare-fun sprintf (Str Val Val Val) Str)
(declare-const str_empty Str)
(assert (= (slen str_empty) 0))
(assert (forall ((s Str)) (! (<= 0 (slen s)) :pattern ((slen s)))))
(assert (forall ((s Str) (i Int)) (! (and (<= 0 (at s i)) (<= (at s i) 255)) :pattern ((at s i)))))

; constructor tests usable from contracts
(define-fun isVNil ((v Val)) Bool ((_ is VNil) v))
(define-fun isVStr ((v Val)) Bool ((_ is VStr) v))
(define-fun isVBool ((v Val)) Bool ((_ is VBool) v))
(define-fun isVInt ((v Val)) Bool ((_ is VInt) v))
(define-fun isVFloat ((v Val)) Bool ((_ is VFloat) v))
(define-fun isVIntK ((v Val)) Bool ((_ is VIntK) v))
(define-fun isVF32 ((v Val)) Bool ((_ is VF32) v))
(define-fun isVList ((v Val)) Bool ((_ is VList) v))
(define-fun isVObj ((v Val)) Bool ((_ is VObj) v))
(define-fun isWNil ((v Val)) Bool ((_ is WNil) v))
(define-fun isWStr ((v Val)) Bool ((_ is WStr) v))
(define-fun isWBool ((v Val)) Bool ((_ is WBool) v))
(define-fun isWInt ((v Val)) Bool ((_ is WInt) v))
(define-fun isWFloat ((v Val)) Bool ((_ is WFloat) v))
(define-fun isVSl ((v Val)) Bool ((_ is VSl) v))
(define-fun isVMp ((v Val)) Bool ((_ is VMp) v))
(define-fun isVErr ((v Val)) Bool ((_ is VErr) v))

; every list of h0 is still a list of h with the same header and the same elements
(define-fun listsUnchanged ((h Heap) (h0 Heap)) Bool
  (forall ((r Int)) (! (=> (= (select (Kind h0) r) KLIST)
     (and (= (select (Kind h) r) KLIST)
          (= (select (Larr h) r) (select (Larr h0) r)) (= (select (Loff h) r) (select (Loff h0) r))
          (= (select (Llen h) r) (select (Llen h0) r)) (= (select (Lcap h) r) (select (Lcap h0) r))
          (= (select (Lptr h) r) (select (Lptr h0) r))
          (forall ((j Int)) (! (=> (and (<= 0 j) (< j (select (Llen h0) r)))
                                   (= (select (select (Mem h) (select (Larr h0) r)) j) (select (select (Mem h0) (select (Larr h0) r)) j)))
                               :pattern ((select (select (Mem h) (select (Larr h0) r)) j))))))
     :pattern ((select (Kind h0) r)))))
; every object of h0 is still an object of h with the same map, the same key set and the same values
(define-fun objsUnchanged ((h Heap) (h0 Heap)) Bool
  (forall ((r Int)) (! (=> (= (select (Kind h0) r) KOBJ)
     (and (= (select (Kind h) r) KOBJ)
          (= (select (Omap h) r) (select (Omap h0) r)) (= (select (Optr h) r) (select (Optr h0) r))
          (= (select (MDom h) (select (Omap h0) r)) (select (MDom h0) (select (Omap h0) r)))
          (= (select (MVal h) (select (Omap h0) r)) (select (MVal h0) (select (Omap h0) r)))
          (= (select (MCard h) (select (Omap h0) r)) (select (MCard h0) (select (Omap h0) r)))))
     :pattern ((select (Kind h0) r)))))
(define-fun even ((x Int)) Bool (= (mod x 2) 0))
; substrings
(assert (forall ((s Str) (a Int) (b Int)) (! (=> (and (<= 0 a) (<= a b) (<= b (slen s))) (= (slen (sub s a b)) (- b a))) :pattern ((sub s a b)))))
(assert (forall ((s Str) (a Int) (b Int) (k Int)) (! (=> (and (<= 0 a) (<= a b) (<= b (slen s)) (<= 0 k) (< k (- b a))) (= (at (sub s a b) k) (at s (+ a k)))) :pattern ((at (sub s a b) k)))))
; nlcount(s, a, b): number of newline bytes in s[a:b).  Characterised (no recursive unfolding, to keep
; instantiation finite) by: empty range, single byte, additivity, newline-free range, substring shift.
(declare-fun nlcount (Str Int Int) Int)
(assert (forall ((s Str) (a Int) (b Int)) (! (=> (<= b a) (= (nlcount s a b) 0)) :pattern ((nlcount s a b)))))
(assert (forall ((s Str) (a Int) (b Int)) (! (=> (= b (+ a 1)) (= (nlcount s a b) (ite (= (at s a) 10) 1 0))) :pattern ((nlcount s a b)))))
; resource assumption: no string has 2^63-64 or more bytes (address space)
(assert (forall ((s Str)) (! (< (slen s) (- MAXINT 64)) :pattern ((slen s)))))
(assert (forall ((s Str)) (! (= (sub s 0 (slen s)) s) :pattern ((sub s 0 (slen s))))))
; ghost: line number cited by an error value (-1 when the message cites none)
(declare-fun errLine (Val) Int)
; trusted lemmas about nlcount (induction over the right bound): additivity and substring shift
(assert (forall ((s Str) (a Int) (b Int) (c Int)) (! (=> (and (<= a b) (<= b c)) (= (nlcount s a c) (+ (nlcount s a b) (nlcount s b c)))) :pattern ((nlcount s a b) (nlcount s b c)))))
(assert (forall ((s Str) (i Int) (n Int) (k Int)) (! (=> (and (<= 0 i) (<= i n) (<= n (slen s)) (<= 0 k) (<= k (- n i))) (= (nlcount (sub s i n) 0 k) (nlcount s i (+ i k)))) :pattern ((nlcount (sub s i n) 0 k)))))
(assert (forall ((s Str) (a Int) (b Int)) (! (and (<= 0 (nlcount s a b)) (=> (<= a b) (<= (nlcount s a b) (- b a)))) :pattern ((nlcount s a b)))))
(assert (forall ((s Str) (a Int) (b Int)) (! (=> (forall ((k Int)) (! (=> (and (<= a k) (< k b)) (not (= (at s k) 10))) :pattern ((at s k)))) (= (nlcount s a b) 0)) :pattern ((nlcount s a b)))))
(assert (forall ((s Str) (a Int) (b Int) (c Int)) (! (=> (and (<= a b) (<= b c)) (= (nlcount s a c) (+ (nlcount s a b) (nlcount s b c)))) :pattern ((nlcount s a b) (nlcount s a c)))))
(assert (forall ((s Str) (a Int) (b Int) (m Int)) (! (=> (and (<= 0 a) (<= a m) (< m b) (<= b (slen s))) (= (at (sub s a b) (- m a)) (at s m))) :pattern ((sub s a b) (at s m)))))
