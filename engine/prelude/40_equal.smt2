; ---------------------------------------------------------------------------
; C07: typed structural equality, unfolded from the property statement.
; eqS(h, a, b): stored field a equals value b (b is VNil when a key is missing).
; ---------------------------------------------------------------------------
(declare-fun eqS (Heap Val Val) Bool)
; scalars: same kind and value (floats by Go's ==, so -0 == +0; NaN is outside the domain)
(assert (forall ((h Heap) (a Val) (b Val)) (! (=> (gh h) (=> ((_ is WNil) a) (= (eqS h a b) ((_ is WNil) b)))) :pattern ((eqS h a b)))))
(assert (forall ((h Heap) (a Val) (b Val)) (! (=> (gh h) (=> ((_ is WStr) a) (= (eqS h a b) (and ((_ is WStr) b) (= (wstr a) (wstr b)))))) :pattern ((eqS h a b)))))
(assert (forall ((h Heap) (a Val) (b Val)) (! (=> (gh h) (=> ((_ is WBool) a) (= (eqS h a b) (and ((_ is WBool) b) (= (wbool a) (wbool b)))))) :pattern ((eqS h a b)))))
(assert (forall ((h Heap) (a Val) (b Val)) (! (=> (gh h) (=> ((_ is WInt) a) (= (eqS h a b) (and ((_ is WInt) b) (= (wint a) (wint b)))))) :pattern ((eqS h a b)))))
(assert (forall ((h Heap) (a Val) (b Val)) (! (=> (gh h) (=> ((_ is WFloat) a) (= (eqS h a b) (and ((_ is WFloat) b) (feq (wfloat a) (wfloat b)))))) :pattern ((eqS h a b)))))
; lists: same length, equal elements position by position (the other side must be a plain list)
(assert (forall ((h Heap) (a Val) (b Val)) (! (=> (gh h) (=> ((_ is VList) a) (= (eqS h a b) (and ((_ is VList) b) (plain (vlref b)) (= (select (Llen h) (impl (vlref a))) (select (Llen h) (vlref b))) (forall ((k Int)) (! (=> (and (<= 0 k) (< k (select (Llen h) (impl (vlref a))))) (eqS h (select (select (Mem h) (select (Larr h) (impl (vlref a)))) k) (select (select (Mem h) (select (Larr h) (vlref b))) k))) :pattern ((select (select (Mem h) (select (Larr h) (impl (vlref a)))) k)))))))) :pattern ((eqS h a b)))))
; objects: same key set, equal values per key
(assert (forall ((h Heap) (a Val) (b Val)) (! (=> (gh h) (=> ((_ is VObj) a) (= (eqS h a b) (and ((_ is VObj) b) (plain (voref b)) (forall ((k Str)) (! (= (select (select (MDom h) (select (Omap h) (impl (voref a)))) k) (select (select (MDom h) (select (Omap h) (voref b))) k)) :pattern ((select (select (MDom h) (select (Omap h) (impl (voref a)))) k)) :pattern ((select (select (MDom h) (select (Omap h) (voref b))) k)))) (forall ((k Str)) (! (=> (select (select (MDom h) (select (Omap h) (impl (voref a)))) k) (eqS h (select (select (MVal h) (select (Omap h) (impl (voref a)))) k) (select (select (MVal h) (select (Omap h) (voref b))) k))) :pattern ((select (select (MVal h) (select (Omap h) (impl (voref a)))) k)))))))) :pattern ((eqS h a b)))))
(declare-fun subsetCard (Heap Int Int) Bool)  ; trigger only (always true)
(assert (forall ((h Heap) (m1 Int) (m2 Int)) (! (=> (gh h) (subsetCard h m1 m2)) :pattern ((subsetCard h m1 m2)))))
; trusted finite-set facts about maps (cardinality = size of the key set)
(assert (forall ((h Heap) (m1 Int) (m2 Int)) (! (=> (gh h) (=> (and (= (select (MCard h) m1) (select (MCard h) m2)) (forall ((k Str)) (! (=> (select (select (MDom h) m1) k) (select (select (MDom h) m2) k)) :pattern ((select (select (MDom h) m1) k))))) (forall ((k Str)) (! (=> (select (select (MDom h) m2) k) (select (select (MDom h) m1) k)) :pattern ((select (select (MDom h) m2) k)))))) :pattern ((subsetCard h m1 m2)))))
(assert (forall ((h Heap) (m1 Int) (m2 Int)) (! (=> (gh h) (=> (forall ((k Str)) (! (= (select (select (MDom h) m1) k) (select (select (MDom h) m2) k)) :pattern ((select (select (MDom h) m1) k)))) (= (select (MCard h) m1) (select (MCard h) m2)))) :pattern ((subsetCard h m1 m2)))))
(assert (forall ((h Heap) (h2 Heap) (a Val) (b Val)) (! (=> (and (gh h) (gh h2)) (=> (and (eqS h a b) (ext h h2)) (eqS h2 a b))) :pattern ((eqS h a b) (ext h h2)))))

; ---------------------------------------------------------------------------
; C08: one level of a deep copy.  copy1(mark, src, dst): dst (a Go value returned by copy()) is
; the bare scalar of src, or a container of the same kind allocated at or above mark.
; ---------------------------------------------------------------------------
(define-fun copy1 ((h Heap) (mark Int) (src Val) (dst Val)) Bool
  (ite ((_ is VList) src) (and ((_ is VList) dst) (>= (vlref dst) mark) (plain (vlref dst)))
  (ite ((_ is VObj) src)  (and ((_ is VObj) dst) (>= (voref dst) mark) (plain (voref dst)))
       (= dst (valOf h src)))))
; the stored field f is one level of a deep copy of the stored field src
(define-fun copyF ((h Heap) (mark Int) (src Val) (f Val)) Bool
  (ite ((_ is VList) src) (and ((_ is VList) f) (>= (vlref f) mark) (plain (vlref f)))
  (ite ((_ is VObj) src)  (and ((_ is VObj) f) (>= (voref f) mark) (plain (voref f)))
       (= f src))))
; the field that parseVal stores for a copied value
(define-fun rewrap ((a Val)) Val
  (ite ((_ is VNil) a) WNil (ite ((_ is VStr) a) (WStr (vstr a)) (ite ((_ is VBool) a) (WBool (vbool a))
  (ite ((_ is VInt) a) (WInt (vint a)) (ite ((_ is VFloat) a) (WFloat (vfloat a)) a))))))
; cardinality is the size of the key set (trusted finite-set facts, true of every reachable heap)
(assert (forall ((h Heap) (m Int)) (! (=> (gh h) (<= 0 (select (MCard h) m))) :pattern ((select (MCard h) m)))))
(assert (forall ((h Heap) (m Int) (k Str)) (! (=> (gh h) (=> (select (select (MDom h) m) k) (<= 1 (select (MCard h) m)))) :pattern ((select (select (MDom h) m) k)))))

; acyclicity of values (the hypothesis of the properties that quantify over trees): a ghost rank that
; strictly decreases from a container to its elements / field values. Used only for termination.
(declare-fun rank (Heap Val) Int)
(assert (forall ((h Heap) (v Val)) (! (=> (gh h) (<= 0 (rank h v))) :pattern ((rank h v)))))
(assert (forall ((h Heap) (o Int) (k Int)) (! (=> (gh h) (=> (and (<= 0 k) (< k (select (Llen h) (impl o)))) (< (rank h (select (select (Mem h) (select (Larr h) (impl o))) k)) (rank h (VList o))))) :pattern ((rank h (VList o)) (select (select (Mem h) (select (Larr h) (impl o))) k)))))
(assert (forall ((h Heap) (o Int) (k Str)) (! (=> (gh h) (=> (select (select (MDom h) (select (Omap h) (impl o))) k) (< (rank h (select (select (MVal h) (select (Omap h) (impl o))) k)) (rank h (VObj o))))) :pattern ((rank h (VObj o)) (select (select (MVal h) (select (Omap h) (impl o))) k)))))
(assert (forall ((h Heap) (h2 Heap) (v Val)) (! (=> (and (gh h) (gh h2)) (=> (ext h h2) (= (rank h v) (rank h2 v)))) :pattern ((ext h h2) (rank h2 v)))))
