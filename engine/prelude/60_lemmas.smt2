; ---------------------------------------------------------------------------
; Lemmas proved by induction on every run (engine/lemmas.go). A lemma may use the prelude above it and
; the lemmas stated before it.
; ---------------------------------------------------------------------------

; a strictly ascending integer sequence has gaps of at least one: x[j] - x[i] >= j - i
(declare-fun ascMark ((Array Int Val) Int) Bool)   ; marker term: "the gap lemma is wanted for A[0..n)" (always true)
(assert (forall ((A (Array Int Val)) (n Int)) (! (ascMark A n) :pattern ((ascMark A n)))))
;@lemma sorted-gap [C05]
;@vars (A (Array Int Val)) (n Int) (i Int) (j Int)
;@hyp (and (ascMark A n) (<= 0 i) (<= i j) (< j n)
;@hyp      (forall ((a Int)) (! (=> (and (<= 0 a) (< (+ a 1) n)) (< (vint (select A a)) (vint (select A (+ a 1))))) :pattern ((select A a)))))
;@concl (<= (+ (vint (select A i)) (- j i)) (vint (select A j)))
;@measure (- j i)
;@pattern (ascMark A n) (select A i) (select A j)

; ---------------------------------------------------------------------------
; C07: typed structural equality is an equivalence relation on plain trees (containers built through the
; API; a derived user type as right operand is never equal, as the code's type assertion dictates).
; allPlain(h, a): every container of the stored value a is plain.  Induction over the acyclicity rank.
; The laws are proved on every run and not exported as axioms (transitivity is a matching loop).
; ---------------------------------------------------------------------------
(declare-fun allPlain (Heap Val) Bool)
(assert (forall ((h Heap) (a Val)) (! (=> (gh h) (=> ((_ is VList) a) (= (allPlain h a)
  (and (plain (vlref a))
       (forall ((k Int)) (! (=> (and (<= 0 k) (< k (select (Llen h) (vlref a)))) (allPlain h (select (select (Mem h) (select (Larr h) (vlref a))) k)))
                            :pattern ((select (select (Mem h) (select (Larr h) (vlref a))) k)))))))) :pattern ((allPlain h a)))))
(assert (forall ((h Heap) (a Val)) (! (=> (gh h) (=> ((_ is VObj) a) (= (allPlain h a)
  (and (plain (voref a))
       (forall ((k Str)) (! (=> (select (select (MDom h) (select (Omap h) (voref a))) k) (allPlain h (select (select (MVal h) (select (Omap h) (voref a))) k)))
                            :pattern ((select (select (MVal h) (select (Omap h) (voref a))) k)))))))) :pattern ((allPlain h a)))))
(assert (forall ((h Heap) (a Val)) (! (=> (gh h) (=> (and (not ((_ is VList) a)) (not ((_ is VObj) a))) (allPlain h a))) :pattern ((allPlain h a)))))

;@lemma eqS-reflexive [C07]
;@noexport
;@vars (h Heap) (a Val)
;@hyp (and (gh h) (wf h) (isField a) (okVal h a) (allPlain h a))
;@concl (eqS h a a)
;@measure (rank h a)
;@pattern (eqS h a a)

;@lemma eqS-symmetric [C07]
;@noexport
;@vars (h Heap) (a Val) (b Val)
;@hyp (and (gh h) (wf h) (isField a) (okVal h a) (allPlain h a) (eqS h a b))
;@concl (eqS h b a)
;@measure (rank h a)
;@pattern (eqS h b a)

;@lemma eqS-transitive [C07]
;@noexport
;@vars (h Heap) (a Val) (b Val) (c Val)
;@hyp (and (gh h) (wf h) (isField a) (okVal h a) (eqS h a b) (eqS h b c))
;@concl (eqS h a c)
;@measure (rank h a)
;@pattern (eqS h a b) (eqS h b c)

; ---------------------------------------------------------------------------
; C11: a container on a tree-form path below r has a rank (acyclicity measure) no larger than r's own: the
; path only descends. Hence the parent of r, whose rank is larger, is never on a path below r - which is
; what lets a tree-form write conclude that the recursive call did not touch the caller's own container.
; Mutual induction over the two container kinds, on the length of the path.
; ---------------------------------------------------------------------------
;@lemma onPath-descends [C11]
;@vars (h Heap) (r Int) (tf Str) (c Int)
;@hyp (and (gh h) (wf h))
;@concl (and (=> (and (= (select (Kind h) r) KOBJ) (onPathO h r tf c))
;@concl          (and (or (= (select (Kind h) c) KLIST) (= (select (Kind h) c) KOBJ))
;@concl               (=> (= (select (Kind h) c) KLIST) (<= (rank h (select (Lptr h) c)) (rank h (select (Optr h) r))))
;@concl               (=> (= (select (Kind h) c) KOBJ) (<= (rank h (select (Optr h) c)) (rank h (select (Optr h) r))))))
;@concl      (=> (and (= (select (Kind h) r) KLIST) (onPathL h r tf c))
;@concl          (and (or (= (select (Kind h) c) KLIST) (= (select (Kind h) c) KOBJ))
;@concl               (=> (= (select (Kind h) c) KLIST) (<= (rank h (select (Lptr h) c)) (rank h (select (Lptr h) r))))
;@concl               (=> (= (select (Kind h) c) KOBJ) (<= (rank h (select (Optr h) c)) (rank h (select (Lptr h) r)))))))
;@measure (slen tf)
;@pattern (onPathO h r tf c)
;@pattern2 (onPathL h r tf c)
