; ---------------------------------------------------------------------------
; C02: the RFC 8259 grammar as Horn rules over builder-append terms.
; JV(h, s, v): s is a JSON text (production `value`) denoting the stored field v.
; Leaf tokens are uninterpreted functions whose conformance is assumed
; (section 9 of DESIGN.md: strconv.Itoa / FormatFloat / FormatBool / quote) and
; sampled by the bounded oracle against encoding/json.
; ---------------------------------------------------------------------------
(declare-fun itoa (Int) Str)            ; strconv.Itoa
(declare-fun ffmtE (F64) Str)           ; strconv.FormatFloat(f,'e',-1,64)
(declare-fun ffmtF (F64) Str)           ; strconv.FormatFloat(f,'f',-1,64)
(declare-fun hasDot (Str) Bool)         ; strings.Contains(s, ".")
(declare-fun fmtBool (Bool) Str)        ; strconv.FormatBool
(declare-fun JQ (Str Str) Bool)         ; JQ(t, x): t is a JSON string literal (RFC 8259 section 7) denoting x
(declare-const str_null Str)
(declare-const str_dot0 Str)
(declare-const str_fmt_kv Str)          ; "%s:%s"
(declare-const str_dot Str)

(declare-fun JV (Heap Str Val) Bool)
(declare-fun floatMarked (Str) Bool)    ; C01: the token is recognisably a float (contains '.' or an exponent)
; scalars
(assert (forall ((h Heap)) (! (=> (gh h) (JV h str_null WNil)) :pattern ((JV h str_null WNil)))))
(assert (forall ((h Heap) (b Bool)) (! (=> (gh h) (JV h (fmtBool b) (WBool b))) :pattern ((JV h (fmtBool b) (WBool b))))))
(assert (forall ((h Heap) (i Int)) (! (=> (gh h) (JV h (itoa i) (WInt i))) :pattern ((JV h (itoa i) (WInt i))))))
(assert (forall ((h Heap) (t Str) (x Str)) (! (=> (gh h) (=> (JQ t x) (JV h t (WStr x)))) :pattern ((JV h t (WStr x))))))
; numbers: each of the three spellings is a JSON number denoting f
(assert (forall ((h Heap) (f F64)) (! (=> (gh h) (JV h (ffmtE f) (WFloat f))) :pattern ((JV h (ffmtE f) (WFloat f))))))
(assert (forall ((h Heap) (f F64)) (! (=> (gh h) (JV h (ffmtF f) (WFloat f))) :pattern ((JV h (ffmtF f) (WFloat f))))))
(assert (forall ((h Heap) (f F64)) (! (=> (gh h) (=> (not (hasDot (ffmtF f))) (JV h (app (ffmtF f) str_dot0) (WFloat f)))) :pattern ((JV h (app (ffmtF f) str_dot0) (WFloat f))))))
(assert (forall ((f F64)) (! (floatMarked (ffmtE f)) :pattern ((ffmtE f)))))
(assert (forall ((f F64)) (! (=> (hasDot (ffmtF f)) (floatMarked (ffmtF f))) :pattern ((ffmtF f)))))
(assert (forall ((f F64)) (! (floatMarked (app (ffmtF f) str_dot0)) :pattern ((app (ffmtF f) str_dot0)))))

; arrays:  LS(h, s, A, i, n): s = '[' e0 ',' ... e(i-1) and a ',' follows iff i < n and i > 0 ... (comma written after each element but the last)
(declare-fun LS (Heap Str (Array Int Val) Int Int) Bool)
(assert (forall ((h Heap) (A (Array Int Val)) (n Int)) (! (=> (gh h) (LS h (app str_empty (runeStr 91)) A 0 n)) :pattern ((LS h (app str_empty (runeStr 91)) A 0 n)))))
(assert (forall ((h Heap) (s Str) (t Str) (A (Array Int Val)) (i Int) (n Int)) (! (=> (gh h) (=> (and (LS h s A i n) (JV h t (select A i)) (<= 0 i) (< (+ i 1) n)) (LS h (app (app s t) (runeStr 44)) A (+ i 1) n))) :pattern ((LS h s A i n) (app (app s t) (runeStr 44))))))
(assert (forall ((h Heap) (s Str) (t Str) (A (Array Int Val)) (i Int) (n Int)) (! (=> (gh h) (=> (and (LS h s A i n) (JV h t (select A i)) (<= 0 i) (= (+ i 1) n)) (LS h (app s t) A n n))) :pattern ((LS h s A i n) (app s t)))))
(assert (forall ((h Heap) (s Str) (r Int)) (! (=> (gh h) (=> (LS h s (select (Mem h) (select (Larr h) (impl r))) (select (Llen h) (impl r)) (select (Llen h) (impl r))) (JV h (app s (runeStr 93)) (VList r)))) :pattern ((JV h (app s (runeStr 93)) (VList r))))))

; objects: OS(h, s, m, o, i, n): s = '{' followed by the first i members of enumeration o, comma after each but the last
(declare-fun OS (Heap Str Int (Array Int Str) Int Int) Bool)
(assert (forall ((h Heap) (m Int) (o (Array Int Str)) (n Int)) (! (=> (gh h) (OS h (app str_empty (runeStr 123)) m o 0 n)) :pattern ((OS h (app str_empty (runeStr 123)) m o 0 n)))))
(assert (forall ((h Heap) (s Str) (t Str) (q Str) (m Int) (o (Array Int Str)) (i Int) (n Int)) (! (=> (gh h) (=> (and (OS h s m o i n) (JQ q (select o i)) (JV h t (select (select (MVal h) m) (select o i))) (<= 0 i) (< (+ i 1) n)) (OS h (app (app s (app (app q (runeStr 58)) t)) (runeStr 44)) m o (+ i 1) n))) :pattern ((OS h s m o i n) (app (app s (app (app q (runeStr 58)) t)) (runeStr 44))))))
(assert (forall ((h Heap) (s Str) (t Str) (q Str) (m Int) (o (Array Int Str)) (i Int) (n Int)) (! (=> (gh h) (=> (and (OS h s m o i n) (JQ q (select o i)) (JV h t (select (select (MVal h) m) (select o i))) (<= 0 i) (= (+ i 1) n)) (OS h (app s (app (app q (runeStr 58)) t)) m o n n))) :pattern ((OS h s m o i n) (app s (app (app q (runeStr 58)) t))))))
(assert (forall ((h Heap) (s Str) (r Int) (o (Array Int Str))) (! (=> (gh h) (=> (and (OS h s (select (Omap h) (impl r)) o (select (MCard h) (select (Omap h) (impl r))) (select (MCard h) (select (Omap h) (impl r)))) (isEnum o (select (MDom h) (select (Omap h) (impl r))) (select (MCard h) (select (Omap h) (impl r))))) (JV h (app s (runeStr 125)) (VObj r)))) :pattern ((OS h s (select (Omap h) (impl r)) o (select (MCard h) (select (Omap h) (impl r))) (select (MCard h) (select (Omap h) (impl r)))) (JV h (app s (runeStr 125)) (VObj r))))))

; fmt.Sprintf("%s:%s", a, b)
(assert (forall ((a Str) (b Str)) (! (= (sprintf str_fmt_kv (VStr a) (VStr b) VNil) (app (app a (runeStr 58)) b)) :pattern ((sprintf str_fmt_kv (VStr a) (VStr b) VNil)))))

; ---- heap extension: nothing that existed in h was modified in h2 (asserted by the engine only
; where that holds by construction: allocation, cell / trace updates, calls and loops with an
; empty container frame).  Trusted region-frame lemmas: a spec predicate over a value depends
; only on containers reachable from it, all of which exist in h.
(declare-fun ext (Heap Heap) Bool)
(assert (forall ((a Heap) (b Heap) (c Heap)) (! (=> (and (gh a) (gh b) (gh c)) (=> (and (ext a b) (ext b c)) (ext a c))) :pattern ((ext a b) (ext b c)))))
(assert (forall ((h Heap) (h2 Heap) (s Str) (v Val)) (! (=> (and (gh h) (gh h2)) (=> (and (JV h s v) (ext h h2)) (JV h2 s v))) :pattern ((JV h s v) (ext h h2)))))
(assert (forall ((h Heap) (h2 Heap) (s Str) (A (Array Int Val)) (i Int) (n Int)) (! (=> (and (gh h) (gh h2)) (=> (and (LS h s A i n) (ext h h2)) (LS h2 s A i n))) :pattern ((LS h s A i n) (ext h h2)))))
(assert (forall ((h Heap) (h2 Heap) (s Str) (m Int) (o (Array Int Str)) (i Int) (n Int)) (! (=> (and (gh h) (gh h2)) (=> (and (OS h s m o i n) (ext h h2)) (OS h2 s m o i n))) :pattern ((OS h s m o i n) (ext h h2)))))
(assert (and (= (slen str_dot) 1) (= (at str_dot 0) 46)))
(assert (and (= (slen str_null) 4) (= (at str_null 0) 110) (= (at str_null 1) 117) (= (at str_null 2) 108) (= (at str_null 3) 108)))
(assert (and (= (slen str_dot0) 2) (= (at str_dot0 0) 46) (= (at str_dot0 1) 48)))

; ---- C01 / C03 leaf facts about strconv (assumed; sampled by the bounded oracles) ------------------
; ParseInt(s, 0, 64): isIdx / parseIdx (declared with the tree-form spec); every int round-trips through Itoa
(declare-fun pfOK (Str) Bool)            ; strconv.ParseFloat(s, 64) succeeds
(declare-fun pfVal (Str) F64)
(declare-fun pbOK (Str) Bool)            ; strconv.ParseBool(s) succeeds
(declare-fun pbVal (Str) Bool)
(assert (forall ((f F64)) (! (and (pfOK (ffmtE f)) (= (pfVal (ffmtE f)) f)) :pattern ((ffmtE f)))))
(assert (forall ((f F64)) (! (and (pfOK (ffmtF f)) (= (pfVal (ffmtF f)) f)) :pattern ((ffmtF f)))))
(assert (forall ((f F64)) (! (=> (not (hasDot (ffmtF f))) (and (pfOK (app (ffmtF f) str_dot0)) (= (pfVal (app (ffmtF f) str_dot0)) f))) :pattern ((app (ffmtF f) str_dot0)))))
(assert (forall ((b Bool)) (! (and (pbOK (fmtBool b)) (= (pbVal (fmtBool b)) b)) :pattern ((fmtBool b)))))
; number tokens are not the literal null
(assert (forall ((i Int)) (! (not (= (itoa i) str_null)) :pattern ((itoa i)))))
(assert (forall ((f F64)) (! (not (= (ffmtE f) str_null)) :pattern ((ffmtE f)))))
(assert (forall ((f F64)) (! (and (not (= (ffmtF f) str_null)) (not (= (app (ffmtF f) str_dot0) str_null))) :pattern ((ffmtF f)))))

; ---------------------------------------------------------------------------
; JSON string literals (RFC 8259 section 7), rune by rune.
; runeAt / runeLen: the rune that utf8.DecodeRuneInString finds at byte position i and its width
; (assumed contract of the UTF-8 decoder, the same as the extern contract of DecodeRuneInString).
; escOK(r, e): e is an admissible spelling of the code point r inside a string literal:
;   the two-character escapes of the RFC, \uXXXX for a code point of the basic plane, or the
;   code point itself when it is not a quotation mark, a reverse solidus or a control character.
; JB(t, s, i): t is a quotation mark followed by admissible spellings of the runes of s[0:i).
; JQ(t, s):    JB(t', s, len s) and t = t' followed by a quotation mark.
; Invalid bytes of s are spelled as U+FFFD (what ranging over the string yields); the properties
; quantify over valid UTF-8 only.
; ---------------------------------------------------------------------------
(declare-fun runeAt (Str Int) Int)
(declare-fun runeLen (Str Int) Int)
(assert (forall ((s Str) (i Int)) (! (=> (and (<= 0 i) (< i (slen s)))
   (and (<= 1 (runeLen s i)) (<= (runeLen s i) 4) (<= (+ i (runeLen s i)) (slen s)) (<= 0 (runeAt s i)) (<= (runeAt s i) 1114111)
        (=> (< (runeAt s i) 128) (and (= (runeLen s i) 1) (= (runeAt s i) (at s i))))))
   :pattern ((runeLen s i)))))
(assert (forall ((s Str) (i Int)) (! (=> (and (<= 0 i) (< i (slen s)))
   (and (<= 0 (runeAt s i)) (<= (runeAt s i) 1114111)
        (=> (< (runeAt s i) 128) (and (= (runeLen s i) 1) (= (runeAt s i) (at s i))))))
   :pattern ((runeAt s i)))))
(define-fun hexv ((c Int)) Int
  (ite (and (<= 48 c) (<= c 57)) (- c 48) (ite (and (<= 97 c) (<= c 102)) (- c 87) (ite (and (<= 65 c) (<= c 70)) (- c 55) (- 1)))))
(define-fun esc2 ((e Str) (c Int)) Bool (and (= (slen e) 2) (= (at e 0) 92) (= (at e 1) c)))
(define-fun escOK ((r Int) (e Str)) Bool
  (or (and (= r 34) (esc2 e 34)) (and (= r 92) (esc2 e 92)) (and (= r 47) (esc2 e 47))
      (and (= r 8) (esc2 e 98)) (and (= r 12) (esc2 e 102)) (and (= r 10) (esc2 e 110)) (and (= r 13) (esc2 e 114)) (and (= r 9) (esc2 e 116))
      (and (= (slen e) 6) (= (at e 0) 92) (= (at e 1) 117)
           (<= 0 (hexv (at e 2))) (<= 0 (hexv (at e 3))) (<= 0 (hexv (at e 4))) (<= 0 (hexv (at e 5)))
           (= r (+ (* 4096 (hexv (at e 2))) (* 256 (hexv (at e 3))) (* 16 (hexv (at e 4))) (hexv (at e 5))))
           (not (and (<= 55296 r) (<= r 57343))))
      (and (>= r 32) (not (= r 34)) (not (= r 92)) (= e (runeStr r)))))
(declare-fun JB (Str Str Int) Bool)
(assert (forall ((s Str)) (! (JB (app str_empty (runeStr 34)) s 0) :pattern ((JB (app str_empty (runeStr 34)) s 0)))))
; one rune, spelled by one, two or three consecutive writes (app is associative)
(assert (forall ((t Str) (e Str) (s Str) (i Int)) (!
  (=> (and (JB t s i) (<= 0 i) (< i (slen s)) (escOK (runeAt s i) e)) (JB (app t e) s (+ i (runeLen s i))))
  :pattern ((JB t s i) (app t e)))))
(assert (forall ((t Str) (e1 Str) (e2 Str) (s Str) (i Int)) (!
  (=> (and (JB t s i) (<= 0 i) (< i (slen s)) (escOK (runeAt s i) (app e1 e2))) (JB (app (app t e1) e2) s (+ i (runeLen s i))))
  :pattern ((JB t s i) (app (app t e1) e2)))))
(assert (forall ((t Str) (e1 Str) (e2 Str) (e3 Str) (s Str) (i Int)) (!
  (=> (and (JB t s i) (<= 0 i) (< i (slen s)) (escOK (runeAt s i) (app (app e1 e2) e3))) (JB (app (app (app t e1) e2) e3) s (+ i (runeLen s i))))
  :pattern ((JB t s i) (app (app (app t e1) e2) e3)))))
(assert (forall ((t Str) (s Str)) (! (=> (JB t s (slen s)) (JQ (app t (runeStr 34)) s)) :pattern ((JB t s (slen s)) (app t (runeStr 34))))))
; length and bytes of concatenations and of single-byte strings
(assert (forall ((a Str) (b Str)) (! (= (slen (app a b)) (+ (slen a) (slen b))) :pattern ((slen (app a b))))))
(assert (forall ((a Str) (b Str) (k Int)) (! (= (at (app a b) k) (ite (< k (slen a)) (at a k) (at b (- k (slen a))))) :pattern ((at (app a b) k)))))
(assert (forall ((b Int)) (! (=> (and (<= 0 b) (<= b 255)) (and (= (slen (byteStr b)) 1) (= (at (byteStr b) 0) b))) :pattern ((byteStr b)))))
; WriteByte of an ASCII byte writes what WriteRune of that code point writes
(assert (forall ((b Int)) (! (=> (and (<= 0 b) (< b 128)) (= (byteStr b) (runeStr b))) :pattern ((byteStr b)))))
(assert (forall ((b Int)) (! (=> (and (<= 0 b) (< b 128)) (and (= (slen (runeStr b)) 1) (= (at (runeStr b) 0) b))) :pattern ((runeStr b)))))
