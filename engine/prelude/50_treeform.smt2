; ---------------------------------------------------------------------------
; C10: tree-form resolution, unfolded one segment at a time from the property statement:
; leading sigil, maximal sigil-free segment, Get, rest.  Index segments are decoded by
; strconv.ParseInt(seg, 0, 64) (isIdx / parseIdx); canonical decimals are characterised by the
; leaf axiom parseIdx(itoa(i)) = i, other accepted spellings are a grey zone of the property.
; ---------------------------------------------------------------------------
(declare-fun segEnd (Str) Int)
(assert (forall ((t Str)) (! (and (<= 0 (segEnd t)) (<= (segEnd t) (slen t))) :pattern ((segEnd t)))))
(assert (forall ((t Str) (k Int)) (! (=> (and (<= 0 k) (< k (segEnd t))) (and (not (= (at t k) 46)) (not (= (at t k) 35)))) :pattern ((segEnd t) (at t k)))))
(assert (forall ((t Str)) (! (=> (< (segEnd t) (slen t)) (or (= (at t (segEnd t)) 46) (= (at t (segEnd t)) 35))) :pattern ((segEnd t)))))
(declare-fun isIdx (Str) Bool)
(declare-fun parseIdx (Str) Int)
(assert (forall ((i Int)) (! (=> (inInt i) (and (isIdx (itoa i)) (= (parseIdx (itoa i)) i))) :pattern ((itoa i)))))
; a token that is recognisably a float (exponent or '.') or a literal is not an integer spelling
(assert (forall ((s Str)) (! (=> (floatMarked s) (not (isIdx s))) :pattern ((floatMarked s)))))
(assert (forall ((b Bool)) (! (and (not (isIdx (fmtBool b))) (not (pfOK (fmtBool b)))) :pattern ((fmtBool b)))))
(assert (forall ((s Str)) (! (=> (isIdx s) (inInt (parseIdx s))) :pattern ((parseIdx s)))))
(assert (not (isIdx str_empty)))
(declare-fun tfKindO (Heap Int Str) Int)
(declare-fun tfKindL (Heap Int Str) Int)
(declare-fun tfDefO (Heap Int Str) Bool)
(declare-fun tfDefL (Heap Int Str) Bool)
(declare-fun tfValO (Heap Int Str) Val)
(declare-fun tfValL (Heap Int Str) Val)

(assert (forall ((h Heap) (r Int) (tf Str)) (! (=> (gh h) (= (tfKindO h r tf) (let ((t (sub tf 1 (slen tf)))) (let ((e (segEnd t))) (let ((key (sub t 0 e)) (rest (sub t e (slen t))) (m (select (Omap h) r))) (let ((child (select (select (MVal h) m) key))) (ite (or (< (slen tf) 2) (not (= (at tf 0) 46))) TUndef (ite (= e 0) TUndef (ite (not (select (select (MDom h) m) key)) TUndef (ite (= e (slen t)) (kindOf child) (ite (= (at t e) 46) (ite ((_ is VObj) child) (tfKindO h (impl (voref child)) rest) TUndef) (ite ((_ is VList) child) (tfKindL h (impl (vlref child)) rest) TUndef)))))))))))) :pattern ((tfKindO h r tf)))))

(assert (forall ((h Heap) (r Int) (tf Str)) (! (=> (gh h) (= (tfDefO h r tf) (let ((t (sub tf 1 (slen tf)))) (let ((e (segEnd t))) (let ((key (sub t 0 e)) (rest (sub t e (slen t))) (m (select (Omap h) r))) (let ((child (select (select (MVal h) m) key))) (ite (or (< (slen tf) 2) (not (= (at tf 0) 46))) false (ite (= e 0) false (ite (not (select (select (MDom h) m) key)) false (ite (= e (slen t)) true (ite (= (at t e) 46) (ite ((_ is VObj) child) (tfDefO h (impl (voref child)) rest) false) (ite ((_ is VList) child) (tfDefL h (impl (vlref child)) rest) false)))))))))))) :pattern ((tfDefO h r tf)))))

(assert (forall ((h Heap) (r Int) (tf Str)) (! (=> (gh h) (= (tfValO h r tf) (let ((t (sub tf 1 (slen tf)))) (let ((e (segEnd t))) (let ((key (sub t 0 e)) (rest (sub t e (slen t))) (m (select (Omap h) r))) (let ((child (select (select (MVal h) m) key))) (ite (or (< (slen tf) 2) (not (= (at tf 0) 46))) VNil (ite (= e 0) VNil (ite (not (select (select (MDom h) m) key)) VNil (ite (= e (slen t)) (valOf h child) (ite (= (at t e) 46) (ite ((_ is VObj) child) (tfValO h (impl (voref child)) rest) VNil) (ite ((_ is VList) child) (tfValL h (impl (vlref child)) rest) VNil)))))))))))) :pattern ((tfValO h r tf)))))

(assert (forall ((h Heap) (r Int) (tf Str)) (! (=> (gh h) (= (tfKindL h r tf) (let ((t (sub tf 1 (slen tf)))) (let ((e (segEnd t))) (let ((seg (sub t 0 e)) (rest (sub t e (slen t)))) (let ((idx (parseIdx seg))) (let ((child (select (select (Mem h) (select (Larr h) r)) idx))) (ite (or (< (slen tf) 2) (not (= (at tf 0) 35))) TUndef (ite (not (isIdx seg)) TUndef (ite (or (< idx 0) (>= idx (select (Llen h) r))) TUndef (ite (= e (slen t)) (kindOf child) (ite (= (at t e) 46) (ite ((_ is VObj) child) (tfKindO h (impl (voref child)) rest) TUndef) (ite ((_ is VList) child) (tfKindL h (impl (vlref child)) rest) TUndef))))))))))))) :pattern ((tfKindL h r tf)))))

(assert (forall ((h Heap) (r Int) (tf Str)) (! (=> (gh h) (= (tfDefL h r tf) (let ((t (sub tf 1 (slen tf)))) (let ((e (segEnd t))) (let ((seg (sub t 0 e)) (rest (sub t e (slen t)))) (let ((idx (parseIdx seg))) (let ((child (select (select (Mem h) (select (Larr h) r)) idx))) (ite (or (< (slen tf) 2) (not (= (at tf 0) 35))) false (ite (not (isIdx seg)) false (ite (or (< idx 0) (>= idx (select (Llen h) r))) false (ite (= e (slen t)) true (ite (= (at t e) 46) (ite ((_ is VObj) child) (tfDefO h (impl (voref child)) rest) false) (ite ((_ is VList) child) (tfDefL h (impl (vlref child)) rest) false))))))))))))) :pattern ((tfDefL h r tf)))))

(assert (forall ((h Heap) (r Int) (tf Str)) (! (=> (gh h) (= (tfValL h r tf) (let ((t (sub tf 1 (slen tf)))) (let ((e (segEnd t))) (let ((seg (sub t 0 e)) (rest (sub t e (slen t)))) (let ((idx (parseIdx seg))) (let ((child (select (select (Mem h) (select (Larr h) r)) idx))) (ite (or (< (slen tf) 2) (not (= (at tf 0) 35))) VNil (ite (not (isIdx seg)) VNil (ite (or (< idx 0) (>= idx (select (Llen h) r))) VNil (ite (= e (slen t)) (valOf h child) (ite (= (at t e) 46) (ite ((_ is VObj) child) (tfValO h (impl (voref child)) rest) VNil) (ite ((_ is VList) child) (tfValL h (impl (vlref child)) rest) VNil))))))))))))) :pattern ((tfValL h r tf)))))
; leaf facts about strconv.ParseInt(s, 0, 64): an accepted spelling is non-empty and contains neither '.' nor '#'
(assert (forall ((s Str)) (! (=> (isIdx s) (> (slen s) 0)) :pattern ((isIdx s)))))
(assert (forall ((s Str) (k Int)) (! (=> (and (isIdx s) (<= 0 k) (< k (slen s))) (and (not (= (at s k) 46)) (not (= (at s k) 35)))) :pattern ((isIdx s) (at s k)))))

; ---- C11: well-formed tree-form paths for writes (non-empty keys free of sigils, non-negative indices)
(declare-fun tfWFO (Str) Bool)
(declare-fun tfWFL (Str) Bool)
(assert (forall ((tf Str)) (! (= (tfWFO tf)
  (let ((t (sub tf 1 (slen tf))))
  (let ((e (segEnd t)))
  (let ((rest (sub t e (slen t))))
  (and (>= (slen tf) 2) (= (at tf 0) 46) (> e 0)
       (or (= e (slen t))
           (and (< e (slen t)) (= (at t e) 46) (tfWFO rest))
           (and (< e (slen t)) (= (at t e) 35) (tfWFL rest))))))))
  :pattern ((tfWFO tf)))))
(assert (forall ((tf Str)) (! (= (tfWFL tf)
  (let ((t (sub tf 1 (slen tf))))
  (let ((e (segEnd t)))
  (let ((seg (sub t 0 e)) (rest (sub t e (slen t))))
  (and (>= (slen tf) 2) (= (at tf 0) 35) (isIdx seg) (>= (parseIdx seg) 0)
       (or (= e (slen t))
           (and (< e (slen t)) (= (at t e) 46) (tfWFO rest))
           (and (< e (slen t)) (= (at t e) 35) (tfWFL rest))))))))
  :pattern ((tfWFL tf)))))

; ---- C11: the containers on a tree-form path (the frame of a tree-form write).
; onPathO(h, r, tf, c): c is the object r itself or lies on the path tf below it, as far as the path resolves
; through existing intermediates of the kind the next sigil requires (what a write reuses); unfolded one
; segment at a time like tfDefO / tfDefL.  Everything that is not on the path is outside the frame.
(declare-fun onPathO (Heap Int Str Int) Bool)
(declare-fun onPathL (Heap Int Str Int) Bool)
(assert (forall ((h Heap) (r Int) (tf Str) (c Int)) (! (=> (gh h) (= (onPathO h r tf c)
  (or (= c r)
      (let ((t (sub tf 1 (slen tf)))) (let ((e (segEnd t))) (let ((key (sub t 0 e)) (rest (sub t e (slen t))) (m (select (Omap h) r)))
      (let ((child (select (select (MVal h) m) key)))
        (and (>= (slen tf) 2) (= (at tf 0) 46) (> e 0) (< e (slen t)) (select (select (MDom h) m) key)
             (ite (= (at t e) 46)
                  (and ((_ is VObj) child) (onPathO h (impl (voref child)) rest c))
                  (and ((_ is VList) child) (onPathL h (impl (vlref child)) rest c)))))))))))
  :pattern ((onPathO h r tf c)))))
(assert (forall ((h Heap) (r Int) (tf Str) (c Int)) (! (=> (gh h) (= (onPathL h r tf c)
  (or (= c r)
      (let ((t (sub tf 1 (slen tf)))) (let ((e (segEnd t))) (let ((seg (sub t 0 e)) (rest (sub t e (slen t))))
      (let ((idx (parseIdx seg))) (let ((child (select (select (Mem h) (select (Larr h) r)) idx)))
        (and (>= (slen tf) 2) (= (at tf 0) 35) (isIdx seg) (<= 0 idx) (< idx (select (Llen h) r)) (< e (slen t))
             (ite (= (at t e) 46)
                  (and ((_ is VObj) child) (onPathO h (impl (voref child)) rest c))
                  (and ((_ is VList) child) (onPathL h (impl (vlref child)) rest c))))))))))))
  :pattern ((onPathL h r tf c)))))
; first segment of a tree-form path and whether it is the last one
(define-fun tfSeg ((tf Str)) Str (sub (sub tf 1 (slen tf)) 0 (segEnd (sub tf 1 (slen tf)))))
(define-fun tfLeaf ((tf Str)) Bool (= (segEnd (sub tf 1 (slen tf))) (slen (sub tf 1 (slen tf)))))
; the sigil after the first segment is a '.' (the next container must be an object) / a '#' (a list)
(define-fun tfNextDot ((tf Str)) Bool (= (at (sub tf 1 (slen tf)) (segEnd (sub tf 1 (slen tf)))) 46))
