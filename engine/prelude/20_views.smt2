; ---------------------------------------------------------------------------
; C14: counting function for typed views.  cntK(A, K, i) = number of j in [0,i)
; with kindOf(A[j]) = K, defined by its one-step unfolding.
; ---------------------------------------------------------------------------
(declare-fun cntK ((Array Int Val) Int Int) Int)
(assert (forall ((A (Array Int Val)) (K Int) (i Int)) (! (=> (<= i 0) (= (cntK A K i) 0)) :pattern ((cntK A K i)))))
(assert (forall ((A (Array Int Val)) (K Int) (i Int)) (!
  (=> (> i 0) (= (cntK A K i) (+ (cntK A K (- i 1)) (ite (= (kindOf (select A (- i 1))) K) 1 0))))
  :pattern ((cntK A K i)))))

; ---------------------------------------------------------------------------
; C17: ghost permutations.  isPerm(p, n): p maps [0,n) one-to-one onto [0,n).
; ---------------------------------------------------------------------------
(declare-fun isPerm ((Array Int Int) Int) Bool)
(assert (forall ((p (Array Int Int)) (n Int) (k Int)) (!
  (=> (and (isPerm p n) (<= 0 k) (< k n)) (and (<= 0 (select p k)) (< (select p k) n)))
  :pattern ((isPerm p n) (select p k)))))
(assert (forall ((p (Array Int Int)) (n Int) (j Int) (k Int)) (!
  (=> (and (isPerm p n) (<= 0 j) (< j n) (<= 0 k) (< k n) (not (= j k))) (not (= (select p j) (select p k))))
  :pattern ((isPerm p n) (select p j) (select p k)))))
; onto: every k of [0,n) is hit (pigeonhole on a finite set: trusted finite-set fact); permInv is the witness
(declare-fun permInv ((Array Int Int) Int Int) Int)
(assert (forall ((p (Array Int Int)) (n Int) (k Int)) (!
  (=> (and (isPerm p n) (<= 0 k) (< k n)) (and (<= 0 (permInv p n k)) (< (permInv p n k) n) (= (select p (permInv p n k)) k)))
  :pattern ((isPerm p n) (permInv p n k)))))
; bytewise order on strings (uninterpreted total preorder; equal strings are order-equal)
(declare-fun sle (Str Str) Bool)
(assert (forall ((a Str)) (! (sle a a) :pattern ((sle a a)))))
(assert (forall ((a Str) (b Str) (c Str)) (! (=> (and (sle a b) (sle b c)) (sle a c)) :pattern ((sle a b) (sle b c)))))
; sorting permutation chosen by sort.X for the array content A of length n (ghost result of the assumed contract)
(declare-fun sortPerm ((Array Int Val) Int) (Array Int Int))
; ... and its inverse: where each element of the input ends up (every element is kept: part of the assumed contract)
(declare-fun sortInv ((Array Int Val) Int) (Array Int Int))
(define-fun ident ((v Val)) Val v)
(define-fun isNumeric ((v Val)) Bool (or ((_ is WInt) v) ((_ is WFloat) v)))
; argument of a typed callback for a stored field (as recorded on the ghost trace)
(define-fun argStr ((v Val)) Val (VStr (wstr v)))
(define-fun argBool ((v Val)) Val (VBool (wbool v)))
(define-fun argInt ((v Val)) Val (VInt (wint v)))
(define-fun argFloat ((v Val)) Val (VFloat (wfloat v)))

; ---- Filter*: counting the selected elements -----------------------------------
; mode K = 0: untyped Filter (every element, argument = what Get returns); K = kind: typed FilterX
(define-fun selArg ((h Heap) (K Int) (e Val)) Val
  (ite (= K 0) (valOf h e)
  (ite (= K TString) (VStr (wstr e)) (ite (= K TBool) (VBool (wbool e))
  (ite (= K TInt) (VInt (wint e)) (ite (= K TFloat) (VFloat (wfloat e)) e))))))
(define-fun selected ((h Heap) (K Int) (e Val)) Bool
  (and (or (= K 0) (= (kindOf e) K)) (vbool (cbret (selArg h K e) VNil))))
(define-fun visited ((K Int) (e Val)) Bool (or (= K 0) (= (kindOf e) K)))
(declare-fun cntSel (Heap (Array Int Val) Int Int) Int)
(assert (forall ((h Heap) (A (Array Int Val)) (K Int) (i Int)) (! (=> (gh h) (=> (<= i 0) (= (cntSel h A K i) 0))) :pattern ((cntSel h A K i)))))
(assert (forall ((h Heap) (A (Array Int Val)) (K Int) (i Int)) (! (=> (gh h) (=> (> i 0) (= (cntSel h A K i) (+ (cntSel h A K (- i 1)) (ite (selected h K (select A (- i 1))) 1 0))))) :pattern ((cntSel h A K i)))))
; number of visited elements for mode K (all of them for K = 0)
(declare-fun cntV ((Array Int Val) Int Int) Int)
(assert (forall ((A (Array Int Val)) (K Int) (i Int)) (! (= (cntV A K i) (ite (= K 0) (ite (<= i 0) 0 i) (cntK A K i))) :pattern ((cntV A K i)))))

; position alias used in contracts (keeps the unfolding chain of cntSel from re-triggering invariants)
(declare-fun selPos (Heap (Array Int Val) Int Int) Int)
(assert (forall ((h Heap) (A (Array Int Val)) (K Int) (i Int)) (! (=> (gh h) (= (selPos h A K i) (cntSel h A K i))) :pattern ((selPos h A K i)))))

; ---------------------------------------------------------------------------
; C18: reference folds (left folds in index order), one-step unfoldings.
; ---------------------------------------------------------------------------
(declare-fun foldSumI ((Array Int Val) Int) Int)
(assert (forall ((A (Array Int Val)) (i Int)) (! (=> (<= i 0) (= (foldSumI A i) 0)) :pattern ((foldSumI A i)))))
(assert (forall ((A (Array Int Val)) (i Int)) (! (=> (> i 0) (= (foldSumI A i)
   (ite ((_ is WInt) (select A (- i 1))) (wrap64 (+ (foldSumI A (- i 1)) (wint (select A (- i 1))))) (foldSumI A (- i 1)))))
   :pattern ((foldSumI A i)))))
(declare-fun foldProdI ((Array Int Val) Int) Int)
(assert (forall ((A (Array Int Val)) (i Int)) (! (=> (<= i 0) (= (foldProdI A i) 1)) :pattern ((foldProdI A i)))))
(assert (forall ((A (Array Int Val)) (i Int)) (! (=> (> i 0) (= (foldProdI A i)
   (ite ((_ is WInt) (select A (- i 1))) (wmul (foldProdI A (- i 1)) (wint (select A (- i 1)))) (foldProdI A (- i 1)))))
   :pattern ((foldProdI A i)))))
(declare-fun foldSumF ((Array Int Val) Int) F64)
(assert (forall ((A (Array Int Val)) (i Int)) (! (=> (<= i 0) (= (foldSumF A i) (i2f 0))) :pattern ((foldSumF A i)))))
(assert (forall ((A (Array Int Val)) (i Int)) (! (=> (> i 0) (= (foldSumF A i)
   (ite ((_ is WInt) (select A (- i 1))) (fadd (foldSumF A (- i 1)) (i2f (wint (select A (- i 1)))))
   (ite ((_ is WFloat) (select A (- i 1))) (fadd (foldSumF A (- i 1)) (wfloat (select A (- i 1)))) (foldSumF A (- i 1))))))
   :pattern ((foldSumF A i)))))
(declare-fun foldProdF ((Array Int Val) Int) F64)
(assert (forall ((A (Array Int Val)) (i Int)) (! (=> (<= i 0) (= (foldProdF A i) (i2f 1))) :pattern ((foldProdF A i)))))
(assert (forall ((A (Array Int Val)) (i Int)) (! (=> (> i 0) (= (foldProdF A i)
   (ite ((_ is WInt) (select A (- i 1))) (fmul (foldProdF A (- i 1)) (i2f (wint (select A (- i 1)))))
   (ite ((_ is WFloat) (select A (- i 1))) (fmul (foldProdF A (- i 1)) (wfloat (select A (- i 1)))) (foldProdF A (- i 1))))))
   :pattern ((foldProdF A i)))))

; invariant parameter of the Reduce* contracts (uninterpreted: the callee's proof holds for every
; interpretation; a caller fixes one with a `define` clause)
(declare-fun RInv (Val Int) Bool)
; trusted lemma (induction over n): a positive count has a witness
(assert (forall ((A (Array Int Val)) (K Int) (n Int)) (!
  (=> (> (cntK A K n) 0) (exists ((j Int)) (and (<= 0 j) (< j n) (= (kindOf (select A j)) K))))
  :pattern ((cntK A K n)))))
(define-fun ile ((a Int) (b Int)) Bool (<= a b))

; ---- C06/C14 (objects): ghost enumerations of a key set ----------------------------------
; isEnum(o, D, n): o[0..n) lists every key of D exactly once
(declare-fun isEnum ((Array Int Str) (Array Str Bool) Int) Bool)
(assert (forall ((o (Array Int Str)) (D (Array Str Bool)) (n Int) (i Int)) (!
  (=> (and (isEnum o D n) (<= 0 i) (< i n)) (select D (select o i)))
  :pattern ((isEnum o D n) (select o i)))))
(assert (forall ((o (Array Int Str)) (D (Array Str Bool)) (n Int) (i Int) (j Int)) (!
  (=> (and (isEnum o D n) (<= 0 i) (< i n) (<= 0 j) (< j n) (not (= i j))) (not (= (select o i) (select o j))))
  :pattern ((isEnum o D n) (select o i) (select o j)))))
(declare-fun enumPos ((Array Int Str) (Array Str Bool) Int Str) Int)
(assert (forall ((o (Array Int Str)) (D (Array Str Bool)) (n Int) (k Str)) (!
  (=> (and (isEnum o D n) (select D k)) (and (<= 0 (enumPos o D n k)) (< (enumPos o D n k) n) (= (select o (enumPos o D n k)) k)))
  :pattern ((isEnum o D n) (select D k)))))

; ---- C06: Set(k1, v1, k2, v2, ...): lastIdx(A, i, k) = position of the last pair among the first i
; arguments whose key is k (or -1): the reference semantics of "last pair wins", by one-step unfolding
(declare-fun lastIdx ((Array Int Val) Int Str) Int)
(assert (forall ((A (Array Int Val)) (i Int) (k Str)) (! (=> (< i 2) (= (lastIdx A i k) (- 1))) :pattern ((lastIdx A i k)))))
(assert (forall ((A (Array Int Val)) (i Int) (k Str)) (!
  (=> (>= i 2) (= (lastIdx A i k) (ite (= (vstr (select A (- i 2))) k) (- i 2) (lastIdx A (- i 2) k))))
  :pattern ((lastIdx A i k)))))

; ---- objects: the values of a map listed along an enumeration of its keys
(declare-fun composeOV ((Array Int Str) (Array Str Val)) (Array Int Val))
(assert (forall ((o (Array Int Str)) (V (Array Str Val)) (i Int)) (! (= (select (composeOV o V) i) (select V (select o i))) :pattern ((select (composeOV o V) i)))))
(define-fun sel ((A (Array Int Val)) (i Int)) Val (select A i))
(define-fun numF ((e Val)) F64 (ite ((_ is WInt) e) (i2f (wint e)) (wfloat e)))
