package main

import (
	"regexp"
	"encoding/json"
	"flag"
	"fmt"
	"go/types"
	"os"
	"sort"
	"strings"
	"time"

	"golang.org/x/tools/go/packages"
	"golang.org/x/tools/go/ssa"
	"golang.org/x/tools/go/ssa/ssautil"
)

func loadRepo(dir string) (*ssa.Program, *ssa.Package, error) {
	cfg := &packages.Config{
		Mode:       packages.NeedName | packages.NeedFiles | packages.NeedCompiledGoFiles | packages.NeedImports | packages.NeedDeps | packages.NeedTypes | packages.NeedSyntax | packages.NeedTypesInfo | packages.NeedTypesSizes,
		Dir:        dir,
		BuildFlags: []string{"-tags=verif"},
		Env:        append(os.Environ(), "GOFLAGS=-mod=mod", "GOPROXY=off", "GOSUMDB=off", "GOTOOLCHAIN=local"),
	}
	pkgs, err := packages.Load(cfg, ".")
	if err != nil {
		return nil, nil, err
	}
	if packages.PrintErrors(pkgs) > 0 {
		return nil, nil, fmt.Errorf("package does not type-check")
	}
	prog, spkgs := ssautil.Packages(pkgs, ssa.GlobalDebug|ssa.InstantiateGenerics)
	prog.Build()
	if len(spkgs) == 0 || spkgs[0] == nil {
		return nil, nil, fmt.Errorf("no SSA package")
	}
	return prog, spkgs[0], nil
}

type Report struct {
	Property    string         `json:"property"`
	Functions   []string       `json:"functions_under_contract"`
	Obligations int            `json:"obligations"`
	Discharged  int            `json:"discharged"`
	Failed      []FailedOb     `json:"failed"`
	ByBackend   map[string]int `json:"by_backend"`
	SolverMs    int64          `json:"solver_ms"`
	Errors      []string       `json:"errors"`
	Assumptions []string       `json:"assumptions"`
	Samples     []string       `json:"samples"`
	Paths       int            `json:"paths"`
	Feasible    map[string]int `json:"feasible_exits"`
	WallS       float64        `json:"wall_s"`
	NamedObls   int            `json:"named_obligations"`
	Canaries    int            `json:"canaries"`
	CanariesOK  int            `json:"canaries_failed_as_expected"`
}

type FailedOb struct {
	Name   string `json:"name"`
	Func   string `json:"func"`
	Path   string `json:"path"`
	Pos    string `json:"pos"`
	Output string `json:"output"`
}

func hasProp(ps []string, p string) bool {
	for _, q := range ps {
		if q == p {
			return true
		}
	}
	return false
}

// obligations that are steps of a proof rather than statements of a property
var reInternal = regexp.MustCompile(`/loop\d+/(established|preserved|decreases)|/call [^/]+/(requires|wf|closure-requires|closure-frame-disjoint|decreases)`)

func main() {
	repo := flag.String("repo", "/repo", "repository to verify")
	cfile := flag.String("contracts", "", "contract file (default <repo>/contracts_verif.go)")
	prop := flag.String("prop", "", "property id (selects contracts and clauses)")
	fnFlag := flag.String("func", "", "verify only this function (debug)")
	timeout := flag.Int("timeout", 10, "solver timeout (s)")
	jobs := flag.Int("j", 16, "parallel solver jobs")
	all := flag.Bool("all-solvers", false, "run every solver and cross-check (thorough)")
	dump := flag.String("dump", "", "directory for failed queries")
	out := flag.String("out", "", "write JSON report here")
	verbose := flag.Bool("v", false, "verbose")
	seed := flag.Int("seed", 0, "solver random seed")
	flag.Parse()
	t0 := time.Now()
	if *cfile == "" {
		*cfile = *repo + "/contracts_verif.go"
	}
	cf, err := loadContracts(*cfile)
	if err != nil {
		fmt.Fprintln(os.Stderr, "contracts:", err)
		os.Exit(2)
	}
	prog, pkg, err := loadRepo(*repo)
	if err != nil {
		fmt.Fprintln(os.Stderr, "load:", err)
		os.Exit(2)
	}
	pre := loadPrelude()
	initPrelude(pre)
	hf, fs := scanPrelude(pre)
	x := &Exec{prog: prog, pkg: pkg, cf: cf, heapFns: hf, fnSort: fs, strs: map[string]int{}, floats: map[string]int{},
		maxPaths: 200000, usedCt: map[string]bool{}, assumptions: map[string]bool{}}
	// field and map[string]field types
	fobj := pkg.Pkg.Scope().Lookup("field")
	x.fieldType = fobj.Type()
	x.fieldMapType = types.NewMap(types.Typ[types.String], x.fieldType)

	funcs := map[string]*ssa.Function{}
	for fn := range x.allFuncs() {
		funcs[fnKey(fn)] = fn
	}
	// select functions: closure over used contracts
	selected := map[string]bool{}
	var queue []string
	for _, ct := range cf.Order {
		if ct.Kind != "func" {
			continue
		}
		if *fnFlag != "" {
			if ct.Func == *fnFlag {
				queue = append(queue, ct.Func)
			}
			continue
		}
		if *prop == "" {
			queue = append(queue, ct.Func)
			continue
		}
		tagged := hasProp(ct.Props, *prop)
		for _, cl := range allClauses(ct) {
			if hasProp(cl.Props, *prop) {
				tagged = true
			}
		}
		if tagged {
			queue = append(queue, ct.Func)
		}
	}
	rep := &Report{Property: *prop, ByBackend: map[string]int{}, Feasible: map[string]int{}}
	var obls []*Oblig
	for len(queue) > 0 {
		name := queue[0]
		queue = queue[1:]
		if selected[name] {
			continue
		}
		selected[name] = true
		ct := cf.ByFunc[name]
		if ct != nil && ct.Flags["bounded"] {
			x.assumptions[name+" is not under contract: decided by the bounded oracle only"] = true
		}
		if ct == nil || ct.Kind != "func" || ct.Flags["trusted"] || ct.Flags["inline"] || ct.Flags["bounded"] {
			continue
		}
		fn := funcs[name]
		if fn == nil {
			x.errorf("contract for %s: no such function in the package", name)
			continue
		}
		x.usedCt = map[string]bool{}
		n0 := len(x.obls)
		x.verifyFunc(fn, ct)
		rep.Functions = append(rep.Functions, name)
		for _, o := range x.obls[n0:] {
			obls = append(obls, o)
		}
		if *fnFlag == "" {
			var used []string
			for u := range x.usedCt {
				used = append(used, u)
			}
			sort.Strings(used)
			for _, u := range used {
				if !selected[u] {
					// interface contract: every implementation must be verified
					for _, c2 := range cf.Order {
						if c2.Kind == "func" && c2.Flags["implements="+u] {
							queue = append(queue, c2.Func)
						}
					}
					queue = append(queue, u)
				}
			}
		}
	}
	x.obls = nil
	// lemmas over the specification functions: the induction step of every lemma tagged with the property
	// (all of them when no property is selected) is an obligation of the run
	loadPrelude()
	lemmaFlag := strings.TrimPrefix(*fnFlag, "lemma:")
	for _, lm := range preludeLemmas {
		if (*fnFlag == "" && (*prop == "" || hasProp(lm.Props, *prop))) || (*fnFlag != "" && (lemmaFlag == lm.Name || *fnFlag == "lemmas")) {
			obls = append(obls, lemmaObligation(lm))
			rep.Functions = append(rep.Functions, "lemma:"+lm.Name)
		}
	}
	// filter by property: explicit clause tags restrict; function-level tags are inherited by the closure
	var sel []*Oblig
	for _, o := range obls {
		if o.Kind != "goal" || *prop == "" || *fnFlag != "" || o.Props == nil || hasProp(o.Props, "AUX") || hasProp(o.Props, *prop) || !explicitTags(cf, o) {
			sel = append(sel, o)
		}
	}
	rep.Paths = x.npaths
	x.solveAll(sel, solveCfg{timeoutS: *timeout, jobs: *jobs, all: *all, dumpDir: *dump, seed: *seed})
	// aggregate by obligation name
	type agg struct {
		n, ok int
	}
	byName := map[string]*agg{}
	feasibleReturn := map[string]int{}
	for _, o := range sel {
		if o.Kind == "feasible" {
			if o.Status == "feasible" {
				feasibleReturn[o.Func]++
			}
			continue
		}
		if o.Kind == "canary" {
			rep.Canaries++
			if o.Status == "proved" {
				x.errorf("%s: vacuity guard: the canary obligation `false` was PROVED (contradictory hypotheses)", o.Func)
			} else {
				rep.CanariesOK++
			}
			continue
		}
		a := byName[o.Name]
		if a == nil {
			a = &agg{}
			byName[o.Name] = a
		}
		a.n++
		rep.Obligations++
		rep.SolverMs += o.Ms
		if *verbose && o.Ms > 3000 {
			fmt.Printf("SLOW %dms %s [%s] %s path=%s\n", o.Ms, o.Name, o.Backend, o.Status, o.Path)
		}
		if o.Status == "proved" {
			a.ok++
			rep.Discharged++
			rep.ByBackend[o.Backend]++
			if len(rep.Samples) < 8 && o.Backend != "trivial" {
				rep.Samples = append(rep.Samples, fmt.Sprintf("%s [path %s] %s %dms", o.Name, o.Path, o.Backend, o.Ms))
			}
		} else {
			nm := o.Name
			if reInternal.MatchString(o.Name) && !hasProp(o.Props, "AUX") {
				// proof-internal step (loop invariant established / preserved, variant, precondition of a callee at a
				// call site): its failure means that the proof of this function does not go through for the code as
				// it is now - the function is undecided (the bounded oracle decides), it is not a property violation
				nm = "engine/" + o.Func + ": proof step " + o.Name + " not discharged"
			}
			if hasProp(o.Props, "AUX") {
				// auxiliary (implementation-level) clause: stronger than any property; a failure makes the
				// proofs that rely on it undecided, it is not itself a property violation
				nm = "engine/" + o.Func + ": auxiliary clause " + o.Name + " no longer holds"
			}
			rep.Failed = append(rep.Failed, FailedOb{nm, o.Func, o.Path, o.Pos, o.Output})
			if *verbose {
				fmt.Printf("FAILED %s  path=%s pos=%s\n   %s\n", o.Name, o.Path, o.Pos, o.Output)
			}
		}
	}
	for _, so := range x.structuralObligations() {
		if *fnFlag != "" || (*prop != "" && !hasProp(so.props, *prop)) {
			continue
		}
		rep.Obligations++
		byName[so.name] = &agg{1, 0}
		if so.ok {
			rep.Discharged++
			rep.ByBackend["structural"]++
		} else {
			nm := so.name
			if nm == "pkg/no-mutable-globals" {
				// a package-level variable is hidden shared state only if something writes it; the structural check cannot
				// tell a lookup table from a cache: undecided, the oracle (history-dependence, concurrent readers) decides
				nm = "engine/pkg: package-level variable (possible hidden shared state): " + so.why
			}
			if nm == "pkg/subset" {
				// a construct outside the verified subset (defer / recover, select, channels, unsafe, reflect, goroutines
				// outside the async methods) makes the affected proofs undecided; it is not itself a violation
				nm = "engine/pkg: construct outside the verified subset: " + so.why
			}
			if nm == "pkg/wrapper-constructors" {
				// the by-value model of the scalar boxes is justified only for the plain constructors: with another body the
				// proofs say nothing about what is stored (binding failure, the oracle decides)
				nm = "engine/pkg: scalar box constructor is not the plain constructor the model assumes: " + so.why
			}
			rep.Failed = append(rep.Failed, FailedOb{nm, "pkg", "", "", so.why})
		}
	}
	rep.NamedObls = len(byName)
	for _, f := range rep.Functions {
		if strings.HasPrefix(f, "lemma:") {
			continue
		}
		rep.Feasible[f] = feasibleReturn[f]
		hadErr := false
		for _, e := range x.errs {
			if strings.HasPrefix(e, f+":") {
				hadErr = true
			}
		}
		if feasibleReturn[f] == 0 && !cf.ByFunc[f].Flags["always-panics"] && !hadErr {
			x.errorf("%s: vacuity guard: no feasible normal-return path (contradictory requires?)", f)
		}
	}
	rep.Errors = x.errs
	for a := range x.assumptions {
		rep.Assumptions = append(rep.Assumptions, a)
	}
	sort.Strings(rep.Assumptions)
	sort.Strings(rep.Functions)
	rep.WallS = time.Since(t0).Seconds()
	if *out != "" {
		b, _ := json.MarshalIndent(rep, "", " ")
		os.WriteFile(*out, b, 0o644)
	}
	fmt.Printf("functions=%d paths=%d obligations=%d discharged=%d failed=%d errors=%d solver=%.1fs wall=%.1fs\n",
		len(rep.Functions), rep.Paths, rep.Obligations, rep.Discharged, len(rep.Failed), len(rep.Errors), float64(rep.SolverMs)/1000, rep.WallS)
	seen := map[string]bool{}
	for _, f := range rep.Failed {
		if !seen[f.Name] {
			seen[f.Name] = true
			fmt.Printf("FAILED-OBLIGATION %s (%s)\n", f.Name, f.Pos)
		}
	}
	for _, e := range rep.Errors {
		fmt.Println("ERROR", e)
	}
	if len(rep.Failed) > 0 || len(rep.Errors) > 0 {
		os.Exit(1)
	}
}

func allClauses(ct *Contract) []*Clause {
	var cs []*Clause
	cs = append(cs, ct.Requires...)
	cs = append(cs, ct.Ensures...)
	cs = append(cs, ct.OnPanic...)
	if ct.PanicsIff != nil {
		cs = append(cs, ct.PanicsIff)
	}
	if ct.PanicsIf != nil {
		cs = append(cs, ct.PanicsIf)
	}
	for _, l := range ct.Loops {
		cs = append(cs, l.Invs...)
	}
	return cs
}

// explicitTags reports whether the obligation's tags differ from its function's header tags
// (i.e. the clause was tagged explicitly).
func explicitTags(cf *ContractFile, o *Oblig) bool {
	ct := cf.ByFunc[o.Func]
	if ct == nil {
		return false
	}
	if len(ct.Props) != len(o.Props) {
		return true
	}
	for i := range ct.Props {
		if ct.Props[i] != o.Props[i] {
			return true
		}
	}
	return false
}
