package main

// Spec-expression language of the //@ contracts: lexer, Pratt parser, AST.
// Translation to SMT is in speceval.go.

import (
	"fmt"
	"strings"
	"unicode"
)

type Expr interface{}

type (
	EIdent  struct{ Name string }
	EInt    struct{ V string }
	EStr    struct{ V string }
	EBin    struct{ Op string; L, R Expr }
	EUn     struct{ Op string; X Expr }
	ECall   struct{ Fn string; Args []Expr }
	ESel    struct{ X Expr; Field string }
	EIndex  struct{ X, I Expr }
	ESlice  struct{ X, Lo, Hi Expr }
	EQuant  struct {
		Forall bool
		Vars   []QVar
		Trig   [][]Expr
		Body   Expr
	}
	EOld  struct{ X Expr }
	ECond struct{ C, A, B Expr }
)

type QVar struct{ Name, Type string }

type tok struct {
	k string // "id" "int" "str" "op" "eof"
	s string
}

func lexSpec(src string) ([]tok, error) {
	var out []tok
	i := 0
	for i < len(src) {
		c := src[i]
		switch {
		case c == ' ' || c == '\t':
			i++
		case unicode.IsLetter(rune(c)) || c == '_' || c == '$':
			j := i + 1
			for j < len(src) && (unicode.IsLetter(rune(src[j])) || unicode.IsDigit(rune(src[j])) || src[j] == '_' || src[j] == '$') {
				j++
			}
			out = append(out, tok{"id", src[i:j]})
			i = j
		case c >= '0' && c <= '9':
			j := i + 1
			for j < len(src) && src[j] >= '0' && src[j] <= '9' {
				j++
			}
			out = append(out, tok{"int", src[i:j]})
			i = j
		case c == '"':
			j := i + 1
			var sb strings.Builder
			for j < len(src) && src[j] != '"' {
				if src[j] == '\\' && j+1 < len(src) {
					j++
					switch src[j] {
					case 'n':
						sb.WriteByte('\n')
					case 't':
						sb.WriteByte('\t')
					default:
						sb.WriteByte(src[j])
					}
				} else {
					sb.WriteByte(src[j])
				}
				j++
			}
			if j >= len(src) {
				return nil, fmt.Errorf("unterminated string in %q", src)
			}
			out = append(out, tok{"str", sb.String()})
			i = j + 1
		case c == '\'':
			// character literal -> int
			j := i + 1
			var ch byte
			if j < len(src) && src[j] == '\\' {
				j++
				switch src[j] {
				case 'n':
					ch = '\n'
				case 't':
					ch = '\t'
				case 'r':
					ch = '\r'
				default:
					ch = src[j]
				}
			} else {
				ch = src[j]
			}
			j++
			if j >= len(src) || src[j] != '\'' {
				return nil, fmt.Errorf("bad char literal in %q", src)
			}
			out = append(out, tok{"int", fmt.Sprint(int(ch))})
			i = j + 1
		default:
			ops := []string{"<==>", "==>", "::", "==", "!=", "<=", ">=", "&&", "||", ":=", "<", ">", "+", "-", "*", "/", "%", "!", "(", ")", "[", "]", "{", "}", ",", ".", ":", "?"}
			ok := false
			for _, op := range ops {
				if strings.HasPrefix(src[i:], op) {
					out = append(out, tok{"op", op})
					i += len(op)
					ok = true
					break
				}
			}
			if !ok {
				return nil, fmt.Errorf("unexpected character %q in %q", c, src)
			}
		}
	}
	out = append(out, tok{"eof", ""})
	return out, nil
}

type specParser struct {
	t   []tok
	p   int
	src string
}

func parseSpec(src string) (e Expr, err error) {
	t, err := lexSpec(src)
	if err != nil {
		return nil, err
	}
	sp := &specParser{t: t, src: src}
	defer func() {
		if r := recover(); r != nil {
			if pe, ok := r.(parseErr); ok {
				err = fmt.Errorf("%s in spec %q", string(pe), src)
				return
			}
			panic(r)
		}
	}()
	e = sp.expr()
	if sp.peek().k != "eof" {
		sp.fail("trailing tokens at %q", sp.peek().s)
	}
	return e, nil
}

type parseErr string

func (sp *specParser) fail(f string, a ...interface{}) { panic(parseErr(fmt.Sprintf(f, a...))) }
func (sp *specParser) peek() tok                       { return sp.t[sp.p] }
func (sp *specParser) next() tok                       { t := sp.t[sp.p]; sp.p++; return t }
func (sp *specParser) isOp(s string) bool              { return sp.peek().k == "op" && sp.peek().s == s }
func (sp *specParser) isId(s string) bool              { return sp.peek().k == "id" && sp.peek().s == s }
func (sp *specParser) expectOp(s string) {
	if !sp.isOp(s) {
		sp.fail("expected %q, got %q", s, sp.peek().s)
	}
	sp.p++
}

func (sp *specParser) expr() Expr {
	if sp.isId("forall") || sp.isId("exists") {
		fa := sp.next().s == "forall"
		var vars []QVar
		for {
			n := sp.next()
			if n.k != "id" {
				sp.fail("expected bound variable")
			}
			ty := sp.next()
			if ty.k != "id" {
				sp.fail("expected type of bound variable")
			}
			vars = append(vars, QVar{n.s, ty.s})
			if sp.isOp(",") {
				sp.p++
				continue
			}
			break
		}
		sp.expectOp("::")
		var trig [][]Expr
		for sp.isOp("{") {
			sp.p++
			var tr []Expr
			for {
				tr = append(tr, sp.expr())
				if sp.isOp(",") {
					sp.p++
					continue
				}
				break
			}
			sp.expectOp("}")
			trig = append(trig, tr)
		}
		body := sp.expr()
		return &EQuant{fa, vars, trig, body}
	}
	return sp.iff()
}

func (sp *specParser) iff() Expr {
	l := sp.implies()
	for sp.isOp("<==>") {
		sp.p++
		r := sp.implies()
		l = &EBin{"<==>", l, r}
	}
	return l
}

func (sp *specParser) implies() Expr {
	l := sp.cond()
	if sp.isOp("==>") {
		sp.p++
		var r Expr
		if sp.isId("forall") || sp.isId("exists") {
			r = sp.expr()
		} else {
			r = sp.implies()
		}
		return &EBin{"==>", l, r}
	}
	return l
}

func (sp *specParser) cond() Expr {
	c := sp.or()
	if sp.isOp("?") {
		sp.p++
		a := sp.cond()
		sp.expectOp(":")
		b := sp.cond()
		return &ECond{c, a, b}
	}
	return c
}

func (sp *specParser) or() Expr {
	l := sp.and()
	for sp.isOp("||") {
		sp.p++
		l = &EBin{"||", l, sp.and()}
	}
	return l
}

func (sp *specParser) and() Expr {
	l := sp.cmp()
	for sp.isOp("&&") {
		sp.p++
		var r Expr
		if sp.isId("forall") || sp.isId("exists") {
			r = sp.expr()
		} else {
			r = sp.cmp()
		}
		l = &EBin{"&&", l, r}
	}
	return l
}

func (sp *specParser) cmp() Expr {
	l := sp.add()
	for _, op := range []string{"==", "!=", "<=", ">=", "<", ">"} {
		if sp.isOp(op) {
			sp.p++
			r := sp.add()
			return &EBin{op, l, r}
		}
	}
	return l
}

func (sp *specParser) add() Expr {
	l := sp.mul()
	for sp.isOp("+") || sp.isOp("-") {
		op := sp.next().s
		l = &EBin{op, l, sp.mul()}
	}
	return l
}

func (sp *specParser) mul() Expr {
	l := sp.unary()
	for sp.isOp("*") || sp.isOp("/") || sp.isOp("%") {
		op := sp.next().s
		l = &EBin{op, l, sp.unary()}
	}
	return l
}

func (sp *specParser) unary() Expr {
	if sp.isOp("!") {
		sp.p++
		return &EUn{"!", sp.unary()}
	}
	if sp.isOp("-") {
		sp.p++
		return &EUn{"-", sp.unary()}
	}
	return sp.postfix()
}

func (sp *specParser) postfix() Expr {
	x := sp.primary()
	for {
		switch {
		case sp.isOp("."):
			sp.p++
			n := sp.next()
			if n.k != "id" {
				sp.fail("expected field name")
			}
			x = &ESel{x, n.s}
		case sp.isOp("["):
			sp.p++
			if sp.isOp(":") {
				sp.p++
				hi := sp.expr()
				sp.expectOp("]")
				x = &ESlice{x, nil, hi}
				continue
			}
			i := sp.expr()
			if sp.isOp(":") {
				sp.p++
				var hi Expr
				if !sp.isOp("]") {
					hi = sp.expr()
				}
				sp.expectOp("]")
				x = &ESlice{x, i, hi}
				continue
			}
			sp.expectOp("]")
			x = &EIndex{x, i}
		default:
			return x
		}
	}
}

func (sp *specParser) primary() Expr {
	t := sp.next()
	switch t.k {
	case "int":
		return &EInt{t.s}
	case "str":
		return &EStr{t.s}
	case "id":
		if sp.isOp("(") {
			sp.p++
			var args []Expr
			if !sp.isOp(")") {
				for {
					args = append(args, sp.expr())
					if sp.isOp(",") {
						sp.p++
						continue
					}
					break
				}
			}
			sp.expectOp(")")
			if t.s == "old" {
				if len(args) != 1 {
					sp.fail("old takes one argument")
				}
				return &EOld{args[0]}
			}
			return &ECall{t.s, args}
		}
		return &EIdent{t.s}
	case "op":
		if t.s == "(" {
			e := sp.expr()
			sp.expectOp(")")
			return e
		}
	}
	sp.fail("unexpected token %q", t.s)
	return nil
}
