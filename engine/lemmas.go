package main

// Lemmas over the specification functions (induction the solver will not do unprompted).
//
// A lemma lives in the prelude as a comment block
//
//   ;@lemma NAME [C05 C17]
//   ;@vars (x (Array Int Int)) (i Int) (j Int)
//   ;@hyp <smt formula>            premises
//   ;@concl <smt formula>          conclusion
//   ;@measure <smt int term>       induction measure (well-founded: >= 0 under the premises)
//   ;@pattern <smt terms>          trigger of the resulting axiom
//
// The engine (1) turns it into the axiom  forall vars. hyp => concl  with the given trigger, available
// to every later query, and (2) discharges, on every run, the induction step: for fresh constants,
// from the premises and the induction hypothesis (the statement for every instance with a smaller
// non-negative measure) the conclusion follows - using the prelude and the lemmas stated *before* this
// one only, so that there is no circularity. A failed step is reported like any failed obligation.

import (
	"fmt"
	"regexp"
	"strings"
)

type Lemma struct {
	Name    string
	Props   []string
	Vars    [][2]string // name, sort
	Hyp     string
	Concl   string
	Measure string
	Pattern string
	Pattern2 string // alternative trigger
	Before  string // prelude text preceding the lemma (what its proof may use)
	NoExport bool  // proved on every run but not added to the prelude as an axiom
}

var reLemmaHead = regexp.MustCompile(`^;@lemma\s+(\S+)\s*(?:\[([^\]]*)\])?`)

// expandLemmas replaces the ;@lemma blocks of the prelude by their axioms and returns the lemmas.
func expandLemmas(pre string) (string, []*Lemma) {
	var out strings.Builder
	var lemmas []*Lemma
	var cur *Lemma
	flush := func() {
		if cur == nil {
			return
		}
		cur.Before = out.String()
		var bs []string
		for _, v := range cur.Vars {
			bs = append(bs, fmt.Sprintf("(%s %s)", v[0], v[1]))
		}
		pat := ""
		if cur.Pattern != "" {
			pat = " :pattern (" + cur.Pattern + ")"
		}
		if cur.Pattern2 != "" {
			pat += " :pattern (" + cur.Pattern2 + ")"
		}
		if !cur.NoExport {
			fmt.Fprintf(&out, "(assert (forall (%s) (! (=> %s %s)%s)))\n", strings.Join(bs, " "), cur.Hyp, cur.Concl, pat)
		}
		lemmas = append(lemmas, cur)
		cur = nil
	}
	for _, l := range strings.Split(pre, "\n") {
		t := strings.TrimSpace(l)
		if m := reLemmaHead.FindStringSubmatch(t); m != nil {
			flush()
			cur = &Lemma{Name: m[1], Props: strings.Fields(m[2])}
			continue
		}
		if cur != nil && t == ";@noexport" {
			cur.NoExport = true
			continue
		}
		if cur != nil && strings.HasPrefix(t, ";@") {
			body := strings.TrimSpace(t[2:])
			sp := strings.IndexAny(body, " \t")
			if sp < 0 {
				continue
			}
			kw, rest := body[:sp], strings.TrimSpace(body[sp:])
			switch kw {
			case "vars":
				cur.Vars = append(cur.Vars, parseBinders(rest)...)
			case "hyp":
				cur.Hyp = joinSp(cur.Hyp, rest)
			case "concl":
				cur.Concl = joinSp(cur.Concl, rest)
			case "measure":
				cur.Measure = rest
			case "pattern":
				cur.Pattern = joinSp(cur.Pattern, rest)
			case "pattern2":
				cur.Pattern2 = joinSp(cur.Pattern2, rest)
			}
			continue
		}
		flush()
		out.WriteString(l)
		out.WriteString("\n")
	}
	flush()
	return out.String(), lemmas
}

func joinSp(a, b string) string {
	if a == "" {
		return b
	}
	return a + " " + b
}

// parseBinders: "(x (Array Int Int)) (i Int)" -> [[x, (Array Int Int)], [i, Int]]
func parseBinders(s string) [][2]string {
	var out [][2]string
	i := 0
	for i < len(s) {
		if s[i] != '(' {
			i++
			continue
		}
		depth, j := 0, i
		for ; j < len(s); j++ {
			if s[j] == '(' {
				depth++
			} else if s[j] == ')' {
				depth--
				if depth == 0 {
					break
				}
			}
		}
		inner := strings.TrimSpace(s[i+1 : j])
		sp := strings.IndexAny(inner, " \t")
		if sp > 0 {
			out = append(out, [2]string{inner[:sp], strings.TrimSpace(inner[sp:])})
		}
		i = j + 1
	}
	return out
}

// lemmaObligation builds the induction-step query of a lemma.
func lemmaObligation(lm *Lemma) *Oblig {
	var ctx []string
	ren := map[string]string{}
	for _, v := range lm.Vars {
		c := "lm_" + v[0]
		ren[v[0]] = c
		ctx = append(ctx, fmt.Sprintf("(declare-const %s %s)", c, v[1]))
	}
	inst := func(f string) string {
		for k, r := range ren {
			f = regexp.MustCompile(`(^|[\s()])`+regexp.QuoteMeta(k)+`($|[\s()])`).ReplaceAllStringFunc(f, func(m string) string {
				return strings.Replace(m, k, r, 1)
			})
			// overlapping matches (adjacent occurrences) need a second pass
			f = regexp.MustCompile(`(^|[\s()])`+regexp.QuoteMeta(k)+`($|[\s()])`).ReplaceAllStringFunc(f, func(m string) string {
				return strings.Replace(m, k, r, 1)
			})
		}
		return f
	}
	ctx = append(ctx, "(assert "+inst(lm.Hyp)+")")
	if lm.Measure != "" {
		var bs []string
		for _, v := range lm.Vars {
			bs = append(bs, fmt.Sprintf("(%s %s)", v[0], v[1]))
		}
		pat := ""
		if lm.Pattern != "" {
			pat = " :pattern (" + lm.Pattern + ")"
		}
		if lm.Pattern2 != "" {
			pat += " :pattern (" + lm.Pattern2 + ")"
		}
		// induction hypothesis: every instance with a smaller, non-negative measure
		ctx = append(ctx, fmt.Sprintf("(assert (forall (%s) (! (=> (and (<= 0 %s) (< %s %s) %s) %s)%s)))",
			strings.Join(bs, " "), lm.Measure, lm.Measure, inst(lm.Measure), lm.Hyp, lm.Concl, pat))
		ctx = append(ctx, fmt.Sprintf("(assert (<= 0 %s))", inst(lm.Measure)))
	}
	return &Oblig{Name: "lemma/" + lm.Name + "/induction-step", Func: "lemma:" + lm.Name, Props: lm.Props, Ctx: ctx, Goal: inst(lm.Concl), Kind: "goal", Path: "", Pos: "prelude"}
}
