package main

// Call rules: builtins, inlining, contracts (static and interface-dispatched),
// callbacks, externs.

import (
	"fmt"
	"go/types"
	"sort"
	"strings"

	"golang.org/x/tools/go/ssa"
)

func (x *Exec) execCall(p *Path, in ssa.CallInstruction, res ssa.Value, work *[]*Path) bool {
	c := in.Common()
	if b, ok := c.Value.(*ssa.Builtin); ok {
		return x.execBuiltin(p, b.Name(), c, res, in)
	}
	var args []SV
	if c.IsInvoke() {
		recv := x.val(p, c.Value)
		for _, a := range c.Args {
			args = append(args, x.val(p, a))
		}
		return x.execInvoke(p, c, recv, args, res, in, work)
	}
	for _, a := range c.Args {
		args = append(args, x.val(p, a))
	}
	if callee := c.StaticCallee(); callee != nil {
		if mc, ok := c.Value.(*ssa.MakeClosure); ok {
			// direct call of a closure created here: pass bindings
			fv := x.val(p, mc)
			return x.callFunc(p, callee, fv.Fn.Binds, args, res, in, work)
		}
		return x.callFunc(p, callee, nil, args, res, in, work)
	}
	fv := x.val(p, c.Value)
	if fv.K == KFunc && fv.Fn.Fn != nil {
		return x.callFunc(p, fv.Fn.Fn, fv.Fn.Binds, args, res, in, work)
	}
	if fv.K == KFunc && fv.Fn.Param != "" {
		return x.callCallback(p, fv, args, res, in)
	}
	x.errorf("%s: call of unknown function value at %s", x.cur.ct.Func, x.pos(in))
	return false
}

func fnKey(fn *ssa.Function) string {
	if fn.Signature.Recv() != nil {
		rt := fn.Signature.Recv().Type()
		if p, ok := rt.(*types.Pointer); ok {
			if n, ok := p.Elem().(*types.Named); ok {
				return "(*" + n.Obj().Name() + ")." + fn.Name()
			}
		}
		if n, ok := rt.(*types.Named); ok {
			return "(" + n.Obj().Name() + ")." + fn.Name()
		}
	}
	if fn.Parent() != nil {
		// closure: parent's key + $n
		name := fn.Name()
		if i := strings.LastIndex(name, "$"); i >= 0 {
			return fnKey(fn.Parent()) + name[i:]
		}
	}
	if fn.Pkg != nil && fn.Pkg.Pkg.Name() != "anytype" {
		return fn.Pkg.Pkg.Path() + "." + fn.Name()
	}
	return fn.Name()
}

func (x *Exec) siteName(p *Path, callee string) string {
	short := callee
	if i := strings.LastIndex(short, "."); i >= 0 {
		short = short[i+1:]
	}
	p.callOrd[short]++
	return fmt.Sprintf("%s#%d", short, p.callOrd[short])
}

func (x *Exec) callFunc(p *Path, callee *ssa.Function, binds []SV, args []SV, res ssa.Value, in ssa.Instruction, work *[]*Path) bool {
	key := fnKey(callee)
	// an instantiation of a generic helper of the package (go/ssa builds it as a function without package): it is
	// executed like any contract-less in-package helper (inlined)
	generic := callee.Pkg == nil && callee.Origin() != nil && callee.Origin().Pkg != nil && callee.Origin().Pkg.Pkg.Name() == "anytype" && callee.Blocks != nil
	if !generic && (callee.Pkg == nil || callee.Pkg.Pkg.Name() != "anytype" || callee.Blocks == nil) {
		return x.callExtern(p, callee, key, args, res, in, work)
	}
	switch key {
	case "newString":
		x.bind(p, res, SV{K: KTerm, T: "(WStr " + args[0].T + ")", S: SVal, Go: res.Type()})
		return true
	case "newBool":
		x.bind(p, res, SV{K: KTerm, T: "(WBool " + args[0].T + ")", S: SVal, Go: res.Type()})
		return true
	case "newInt":
		x.bind(p, res, SV{K: KTerm, T: "(WInt " + args[0].T + ")", S: SVal, Go: res.Type()})
		return true
	case "newFloat":
		x.bind(p, res, SV{K: KTerm, T: "(WFloat " + args[0].T + ")", S: SVal, Go: res.Type()})
		return true
	case "newNil":
		x.bind(p, res, SV{K: KTerm, T: "WNil", S: SVal, Go: res.Type()})
		return true
	}
	ct := x.cf.ByFunc[key]
	if ct != nil && len(ct.Ensures) == 0 && callee.Signature.Recv() != nil {
		for fl := range ct.Flags {
			if strings.HasPrefix(fl, "implements=") {
				if ic := x.cf.ByFunc[fl[len("implements="):]]; ic != nil {
					vars := map[string]SV{"self": x.makeInterface(p, callee.Params[0].Type(), args[0])}
					switch ptrToNamed(callee.Params[0].Type()) {
					case "list":
						// the receiver is the implementation of its registered outer value
						vars["self"] = x.define(p, "self", term(fmt.Sprintf("(select (Lptr %s) %s)", p.H, args[0].T), SVal))
					case "object":
						vars["self"] = x.define(p, "self", term(fmt.Sprintf("(select (Optr %s) %s)", p.H, args[0].T), SVal))
					}
					for i, prm := range callee.Params {
						vars[prm.Name()] = args[i]
					}
					r, ok := x.applyContract(p, ic, vars, callee.Signature.Results(), x.siteName(p, key), in, work)
					if !ok {
						return false
					}
					if res != nil {
						x.bind(p, res, r)
					}
					return true
				}
			}
		}
	}
	if ct != nil && !ct.Flags["inline"] {
		vars := map[string]SV{}
		for i, prm := range callee.Params {
			vars[prm.Name()] = args[i]
		}
		for i, fv := range callee.FreeVars {
			if i < len(binds) {
				vars[fv.Name()] = binds[i]
			}
		}
		r, ok := x.applyContract(p, ct, vars, callee.Signature.Results(), x.siteName(p, key), in, work)
		if !ok {
			return false
		}
		if res != nil {
			x.bind(p, res, r)
		}
		return true
	}
	// inline
	if len(p.frames) > 6 {
		x.errorf("%s: inlining too deep at %s (add a contract for %s)", x.cur.ct.Func, x.pos(in), key)
		return false
	}
	if key == x.cur.ct.Func {
		x.errorf("%s: recursive call needs its own contract to be applied", key)
		return false
	}
	for _, fr := range p.frames {
		if fr.fn == callee {
			// a recursive helper cannot be inlined: without a contract the caller's proof is undecided; stop exploring
			// (every branch of the recursion would otherwise be unfolded up to the depth limit)
			x.errorf("%s: recursive helper %s has no contract (called at %s)", x.cur.ct.Func, key, x.pos(in))
			x.abort = true
			return false
		}
	}
	fr := &Frame{fn: callee, env: map[ssa.Value]SV{}, blk: callee.Blocks[0], ret: res}
	for i, prm := range callee.Params {
		fr.env[prm] = args[i]
	}
	for i, fv := range callee.FreeVars {
		fr.env[fv] = binds[i]
	}
	p.frames = append(p.frames, fr)
	p.desc = append(p.desc, "in:"+callee.Name())
	return true
}

// execInvoke: dynamic dispatch through field / List / Object.
func (x *Exec) execInvoke(p *Path, c *ssa.CallCommon, recv SV, args []SV, res ssa.Value, in ssa.Instruction, work *[]*Path) bool {
	it := c.Value.Type()
	m := c.Method.Name()
	x.guard(p, fmt.Sprintf("(not (= %s VNil))", recv.T), "nil-invoke", in)
	var key string
	vars := map[string]SV{"self": recv}
	sig := c.Method.Type().(*types.Signature)
	switch {
	case isNamed(it, "field"):
		key = "field." + m
	case isNamed(it, "List"):
		key = "(*list)." + m
		ego := x.define(p, "ego", term(fmt.Sprintf("(impl (vlref %s))", recv.T), SRefL))
		vars["ego"] = ego
	case isNamed(it, "Object"):
		key = "(*object)." + m
		ego := x.define(p, "ego", term(fmt.Sprintf("(impl (voref %s))", recv.T), SRefO))
		vars["ego"] = ego
	default:
		if n, ok := it.(*types.Named); ok && n.Obj().Name() == "error" {
			key = "error." + m
		} else {
			x.errorf("%s: invoke on %s", x.cur.ct.Func, it)
			return false
		}
	}
	ct := x.cf.ByFunc[key]
	if ct == nil {
		x.errorf("%s: no contract for %s (invoked at %s)", x.cur.ct.Func, key, x.pos(in))
		return false
	}
	if ct.Flags["inline"] {
		// tiny contract-less method (Init, Ego): run the *list / *object body on the implementation
		if fn := x.lookupFunc(key); fn != nil {
			return x.callFunc(p, fn, nil, append([]SV{vars["ego"]}, args...), res, in, work)
		}
	}
	for fl := range ct.Flags {
		if strings.HasPrefix(fl, "implements=") && len(ct.Ensures) == 0 {
			// an implementation that only restates the interface-level contract
			if ic := x.cf.ByFunc[fl[len("implements="):]]; ic != nil {
				ct = ic
			}
		}
	}
	// parameter names: from the implementing function if available
	names := x.paramNames(key, sig)
	for i, a := range args {
		if i < len(names) {
			vars[names[i]] = a
		}
	}
	r, ok := x.applyContract(p, ct, vars, sig.Results(), x.siteName(p, key), in, work)
	if !ok {
		return false
	}
	if res != nil {
		x.bind(p, res, r)
	}
	return true
}

func (x *Exec) paramNames(key string, sig *types.Signature) []string {
	if fn := x.lookupFunc(key); fn != nil {
		var ns []string
		for _, prm := range fn.Params {
			ns = append(ns, prm.Name())
		}
		if fn.Signature.Recv() != nil && len(ns) > 0 {
			ns = ns[1:]
		}
		return ns
	}
	var ns []string
	for i := 0; i < sig.Params().Len(); i++ {
		ns = append(ns, sig.Params().At(i).Name())
	}
	return ns
}

func (x *Exec) lookupFunc(key string) *ssa.Function {
	for fn := range x.allFuncs() {
		if fnKey(fn) == key {
			return fn
		}
	}
	return nil
}

var allFuncsCache map[*ssa.Function]bool

func (x *Exec) allFuncs() map[*ssa.Function]bool {
	if allFuncsCache != nil {
		return allFuncsCache
	}
	out := map[*ssa.Function]bool{}
	var add func(fn *ssa.Function)
	add = func(fn *ssa.Function) {
		if fn == nil || out[fn] {
			return
		}
		out[fn] = true
		for _, a := range fn.AnonFuncs {
			add(a)
		}
	}
	for _, m := range x.pkg.Members {
		switch t := m.(type) {
		case *ssa.Function:
			add(t)
		case *ssa.Type:
			for _, ty := range []types.Type{t.Type(), types.NewPointer(t.Type())} {
				ms := x.prog.MethodSets.MethodSet(ty)
				for i := 0; i < ms.Len(); i++ {
					fn := x.prog.MethodValue(ms.At(i))
					if fn != nil && fn.Synthetic == "" {
						add(fn)
					}
				}
			}
		}
	}
	allFuncsCache = out
	return out
}

// applyContract: assert requires, split on the panic domain, havoc the frame, assume ensures.
func (x *Exec) applyContract(p *Path, ct *Contract, vars map[string]SV, results *types.Tuple, site string, in ssa.Instruction, work *[]*Path) (SV, bool) {
	x.usedCt[ct.Func] = true
	// publish under-construction containers that are passed to the callee (receiver or direct argument)
	if len(p.unpub) > 0 {
		kinds := fmt.Sprintf("(Kind %s)", p.H)
		changed := false
		for _, u := range p.unpub {
			parts := strings.SplitN(u, "|", 2)
			var conds []string
			for _, v := range vars {
				if v.K != KTerm {
					continue
				}
				switch v.S {
				case SRefL, SRefO:
					conds = append(conds, fmt.Sprintf("(= %s %s)", v.T, parts[1]))
				case SVal:
					conds = append(conds, fmt.Sprintf("(= %s (VList %s))", v.T, parts[1]), fmt.Sprintf("(= %s (VObj %s))", v.T, parts[1]))
				}
			}
			if len(conds) > 0 {
				kinds = fmt.Sprintf("(store %s %s (ite (or %s) %s (select (Kind %s) %s)))", kinds, parts[1], strings.Join(conds, " "), parts[0], p.H, parts[1])
				changed = true
			}
		}
		if changed {
			p.pendingExt = "publish" // publishing changes no live container (but wf must be re-established)
			x.upd(p, "Kind", kinds)
		}
	}
	pre := p.H
	env := &SpecEnv{x: x, vars: vars, H: pre, H0: pre, HN: pre}
	for _, lt := range ct.Lets {
		sv, err := env.evalSV(lt.E)
		if err != nil {
			x.errorf("%s: call %s: let %s: %v", x.cur.ct.Func, site, lt.Name, err)
			return SV{}, false
		}
		env = env.with(lt.Name, sv)
	}
	tag := "call " + site
	// inside a goroutine body, a call that may write shared state must hold the mutex
	if !ct.Flags["pure"] && ct.Kind != "extern" {
		for _, fr := range p.frames {
			if fr.spawned {
				goal := "false"
				var ls []string
				for _, m := range p.mutexes {
					ls = append(ls, fmt.Sprintf("(select (CBool %s) %s)", p.H, m))
				}
				if len(ls) == 1 {
					goal = ls[0]
				} else if len(ls) > 1 {
					goal = "(or " + strings.Join(ls, " ") + ")"
				}
				x.oblig(p, tag+"/async/mutex-held", goal, x.cur.ct.Props, x.pos(in))
				break
			}
		}
	}
	// known closures passed to a callee that calls back: functional summary of the closure for cbret
	type cloInfo struct {
		cc   *Contract
		fv   SV
		cenv *SpecEnv
		cfs  frameSet
	}
	var clos []cloInfo
	if ct.Flags["callbacks"] {
		var names []string
		for n := range vars {
			names = append(names, n)
		}
		sort.Strings(names)
		for _, n := range names {
			v := vars[n]
			if v.K != KFunc || v.Fn.Fn == nil {
				continue
			}
			cc := x.cf.ByFunc[fnKey(v.Fn.Fn)]
			if cc == nil {
				x.errorf("%s: %s: closure %s passed as callback has no contract", x.cur.ct.Func, site, fnKey(v.Fn.Fn))
				return SV{}, false
			}
			x.usedCt[cc.Func] = true
			cvars := map[string]SV{}
			for i, fvv := range v.Fn.Fn.FreeVars {
				if i < len(v.Fn.Binds) {
					cvars[fvv.Name()] = v.Fn.Binds[i]
				}
			}
			for k, vv := range x.cur.params {
				if _, ok := cvars[k]; !ok {
					cvars[k] = vv
				}
			}
			for k, vv := range p.lets {
				if _, ok := cvars[k]; !ok {
					cvars[k] = vv
				}
			}
			cenv := &SpecEnv{x: x, vars: cvars, H: pre, H0: p.H0, HN: pre}
			for _, lt := range cc.Lets {
				if sv, err := cenv.evalSV(lt.E); err == nil {
					cenv = cenv.with(lt.Name, sv)
				}
			}
			// (a) for all arguments: requires ==> returns, with result := cbret(args)
			qenv := cenv
			var decl, wrapped []string
			prms := v.Fn.Fn.Params
			for _, prm := range prms {
				so := sortOf(prm.Type())
				nm := "c_" + sanitize(prm.Name())
				decl = append(decl, fmt.Sprintf("(%s %s)", nm, so.smt()))
				qenv = qenv.with(prm.Name(), SV{K: KTerm, T: nm, S: so, Go: prm.Type()})
				wrapped = append(wrapped, wrapElem(prm.Type(), nm))
			}
			for len(wrapped) < 2 {
				wrapped = append(wrapped, "VNil")
			}
			raw := fmt.Sprintf("(cbret %s %s)", wrapped[0], wrapped[1])
			if rs := v.Fn.Fn.Signature.Results(); rs.Len() == 1 {
				r := unwrapElem(rs.At(0).Type(), raw)
				qenv = qenv.with("result", r)
				if r.S != SVal {
					// typed result: cbret carries a value of that type
					ctor := map[Sort]string{SInt: "VInt", SBool: "VBool", SStr: "VStr", SF64: "VFloat"}[r.S]
					if ctor != "" {
						qenv = qenv.with("result_is_typed", term(fmt.Sprintf("((_ is %s) %s)", ctor, raw), SBool))
					}
				}
			}
			var pre_, post_ []string
			for _, rq := range cc.Requires {
				if t, err := qenv.evalBool(rq.E); err == nil {
					pre_ = append(pre_, t)
				} else {
					x.errorf("%s: closure requires: %v", cc.Func, err)
				}
			}
			for _, rt := range cc.Returns {
				if t, err := qenv.evalBool(rt.E); err == nil {
					post_ = append(post_, t)
				} else {
					x.errorf("%s: closure returns: %v", cc.Func, err)
				}
			}
			if tt, ok := qenv.vars["result_is_typed"]; ok {
				post_ = append(post_, tt.T)
			}
			if len(post_) > 0 {
				pr := "true"
				if len(pre_) > 0 {
					pr = "(and " + strings.Join(pre_, " ") + ")"
				}
				p.assume(fmt.Sprintf("(forall (%s) (! (=> %s (and %s)) :pattern (%s)))", strings.Join(decl, " "), pr, strings.Join(post_, " "), raw))
			}
			if len(cc.Each)+len(cc.Others)+len(cc.Appends) > 0 {
				// the closure must not write the container the callee is traversing
				if ego, ok := vars["ego"]; ok {
					var cf frameSet
					for _, as := range cc.Assigns {
						x.addFrame(&cf, cenv, as.E)
					}
					for _, o := range append(append([]string{}, cf.objs...), cf.lists...) {
						x.oblig(p, tag+"/closure-frame-disjoint", fmt.Sprintf("(not (= %s %s))", o, ego.T), x.cur.ct.Props, x.pos(in))
					}
				}
				for _, rq := range cc.Requires {
					if !mentionsAny(rq.E, prms) {
						if t, err := cenv.evalBool(rq.E); err == nil {
							x.oblig(p, tag+"/closure-requires/"+rq.Label, t, x.cur.ct.Props, x.pos(in))
						}
					} else if ct.CbArgs != nil {
						// forall a0 a1: callee's callback_args(a0, a1) ==> requires(key := a0, val := a1)
						aenv := env.with("a0", term("cb_a0", SVal)).with("a1", term("cb_a1", SVal))
						ca, err1 := aenv.evalBool(ct.CbArgs.E)
						renv := cenv
						for i, prm := range prms {
							if i < 2 {
								renv = renv.with(prm.Name(), unwrapElem(prm.Type(), []string{"cb_a0", "cb_a1"}[i]))
							}
						}
						rt, err2 := renv.evalBool(rq.E)
						if err1 == nil && err2 == nil {
							x.oblig(p, tag+"/closure-requires/"+rq.Label, fmt.Sprintf("(forall ((cb_a0 Val) (cb_a1 Val)) (=> %s %s))", ca, rt), x.cur.ct.Props, x.pos(in))
						}
					} else {
						x.oblig(p, tag+"/closure-requires/"+rq.Label, "false", x.cur.ct.Props, x.pos(in))
					}
				}
			}
			ci := cloInfo{cc: cc, fv: v, cenv: cenv}
			for _, as := range cc.Assigns {
				x.addFrame(&ci.cfs, cenv, as.E)
			}
			clos = append(clos, ci)
		}
	}
	if !ct.Flags["nowf"] && ct.Kind != "extern" && p.H != p.wfKnown {
		x.wfOblig(p, tag)
	}
	for _, rq := range ct.Requires {
		s, err := env.evalBool(rq.E)
		if err != nil {
			x.errorf("%s: %s requires %s: %v", x.cur.ct.Func, site, rq.Label, err)
			return SV{}, false
		}
		x.oblig(p, tag+"/requires/"+rq.Label, s, x.cur.ct.Props, x.pos(in))
		p.assume(s)
	}
	// recursion: the callee's variant must be smaller than the caller's (both declare `decreases`)
	if ct.Decreases != nil && x.cur.ct.Decreases != nil && ct.Kind != "extern" {
		cv, err1 := env.evalSV(ct.Decreases.E)
		cenv := x.specEnv(p)
		cenv.H = p.H0
		mv, err2 := cenv.evalSV(x.cur.ct.Decreases.E)
		if err1 == nil && err2 == nil && cv.K == KTerm && mv.K == KTerm {
			x.oblig(p, tag+"/decreases", fmt.Sprintf("(and (<= 0 %s) (< %s %s))", cv.T, cv.T, mv.T), x.cur.ct.Props, x.pos(in))
		} else {
			x.errorf("%s: %s decreases: %v %v", x.cur.ct.Func, site, err1, err2)
		}
	}
	// callee frame within caller frame
	var cfs frameSet
	for _, as := range ct.Assigns {
		x.addFrame(&cfs, env, as.E)
	}
	for _, ci := range clos {
		cfs.cells = append(cfs.cells, ci.cfs.cells...)
		cfs.lists = append(cfs.lists, ci.cfs.lists...)
		cfs.objs = append(cfs.objs, ci.cfs.objs...)
	}
	if !x.cur.frame.all {
		chk := func(kind string, ids []string) {
			for _, id := range ids {
				x.frameCheck(p, kind, id, in)
			}
		}
		chk("list", cfs.lists)
		chk("obj", cfs.objs)
		chk("cell", cfs.cells)
		chk("arr", cfs.arrs)
		chk("map", cfs.maps)
		if cfs.all || (cfs.tree && !x.cur.frame.tree) {
			x.oblig(p, tag+"/frame", "false", x.cur.ct.Props, x.pos(in))
		}
		// a callee that writes along a tree-form path: every container on its path is fresh or within the caller's frame
		for _, pf := range cfs.paths {
			one := frameSet{paths: []pathFrame{pf}}
			in1 := one.inPath(pre, "fc_r")
			allowed := []string{fmt.Sprintf("(>= fc_r (next %s))", p.H0)}
			for _, s := range append(append([]string{}, x.cur.frame.lists...), x.cur.frame.objs...) {
				allowed = append(allowed, fmt.Sprintf("(= fc_r %s)", s))
			}
			if len(x.cur.frame.paths) > 0 {
				allowed = append(allowed, x.cur.frame.inPath(p.H0, "fc_r"))
			}
			if x.cur.frame.tree {
				continue
			}
			x.oblig(p, tag+"/frame/path-within-frame", fmt.Sprintf("(forall ((fc_r Int)) (! (=> %s (or %s)) :pattern (%s)))", in1, strings.Join(allowed, " "), in1), x.cur.ct.Props, x.pos(in))
		}
	}
	// panic domain
	pc := ct.PanicsIff
	if pc == nil {
		pc = ct.PanicsIf
	}
	if pc != nil {
		s, err := env.evalBool(pc.E)
		if err != nil {
			x.errorf("%s: %s panics clause: %v", x.cur.ct.Func, site, err)
			return SV{}, false
		}
		if s != "false" {
			bad := p.clone()
			bad.assume(s)
			if len(ct.OnPanic) > 0 || !ct.Flags["pure"] {
				// state after a panicking call: frame-havoc, plus on_panic clauses
				hb := x.newHeap(bad)
				for _, ax := range frameAxioms(&cfs, pre, hb) {
					bad.assume(ax)
				}
				bad.H = hb
				benv := *env
				benv.H = hb
				for _, c := range ct.OnPanic {
					if t, err := benv.evalBool(c.E); err == nil {
						bad.assume(t)
					}
				}
			}
			x.exitPanic(bad, "callee:"+site, in)
			if ct.PanicsIff != nil {
				p.assume("(not " + s + ")")
			}
		}
	}
	// normal return
	var result SV
	post := pre
	if !ct.Flags["pure"] {
		post = x.newHeap(p)
		for _, ax := range frameAxioms(&cfs, pre, post) {
			p.assume(ax)
		}
		x.seedFrame(p, &cfs, pre, post)
		if !cfs.all && !cfs.tree && len(cfs.lists)+len(cfs.objs)+len(cfs.arrs)+len(cfs.maps)+len(cfs.paths) == 0 {
			p.assume(fmt.Sprintf("(ext %s %s)", pre, post)) // nothing that existed was modified
			p.prevH = ""
			x.extStep(p, post, "ghost")
		} else {
			p.anchors = nil
		}
		x.addAnchorAt(p, post)
		p.assume(freshOwn(pre, post))
		if !ct.Flags["callbacks"] {
			p.assume(fmt.Sprintf("(= (TrLen %s) (TrLen %s))", post, pre))
			p.assume(fmt.Sprintf("(= (TrA %s) (TrA %s))", post, pre))
			p.assume(fmt.Sprintf("(= (TrB %s) (TrB %s))", post, pre))
		}
		p.H = post
		if !ct.Flags["nowf"] {
			p.assume(fmt.Sprintf("(wf %s)", post))
			p.wfKnown = post
		}
	}
	// (c'') sequence-accumulating closures (contract with appends clauses): after the call the captured slice has
	// grown by one element per invocation, the old elements are kept, and element L0+j satisfies the fact for the
	// arguments of invocation j (induction over the invocations; each step is an obligation of the closure)
	for _, ci := range clos {
		cc := ci.cc
		prms := ci.fv.Fn.Fn.Params
		for _, ac := range cc.Appends {
			penv := *ci.cenv
			penv.H = post
			penv.H0 = pre
			preEnv := *ci.cenv
			preEnv.H = pre
			preEnv.H0 = pre
			lenE, _ := parseSpec("len(" + ac.SliceSrc + ")")
			l0, err0 := (&preEnv).evalSV(lenE)
			l1, err1 := (&penv).evalSV(lenE)
			if err0 != nil || err1 != nil {
				x.errorf("%s: closure appends: %v %v", cc.Func, err0, err1)
				continue
			}
			t0 := fmt.Sprintf("(TrLen %s)", pre)
			t1 := fmt.Sprintf("(TrLen %s)", post)
			p.assume(fmt.Sprintf("(= %s (+ %s (- %s %s)))", l1.T, l0.T, t1, t0))
			if pe, err := parseSpec(fmt.Sprintf("forall ap_j int :: 0 <= ap_j && ap_j < old(len(%s)) ==> %s[ap_j] == old(%s[ap_j])", ac.SliceSrc, ac.SliceSrc, ac.SliceSrc)); err == nil {
				if t, err := (&penv).evalBool(pe); err == nil {
					p.assume(t)
				}
			}
			jenv := (&penv).with("ap_kv", term("ap_k", SInt))
			for i, prm := range prms {
				if i < 2 {
					arr := "TrA"
					if i == 1 {
						arr = "TrB"
					}
					jenv = jenv.with(prm.Name(), unwrapElem(prm.Type(), fmt.Sprintf("(select (%s %s) (+ %s (- ap_k %s)))", arr, post, t0, l0.T)))
				}
			}
			elE, _ := parseSpec(ac.SliceSrc + "[ap_kv]")
			el, err2 := jenv.evalSV(elE)
			fe, err3 := parseSpec(substWord(ac.FactSrc, ac.Var, "("+ac.SliceSrc+"[ap_kv])"))
			if err2 != nil || err3 != nil {
				x.errorf("%s: closure appends: %v %v", cc.Func, err2, err3)
				continue
			}
			if t, err := jenv.evalBool(fe); err == nil {
				p.assume(fmt.Sprintf("(forall ((ap_k Int)) (! (=> (and (<= %s ap_k) (< ap_k %s)) %s) :pattern (%s)))", l0.T, l1.T, t, el.T))
			} else {
				x.errorf("%s: closure appends fact: %v", cc.Func, err)
			}
			// argument-independent preconditions of the closure are preserved by every invocation
			for _, rq := range cc.Requires {
				if !mentionsAny(rq.E, prms) {
					if t, err := (&penv).evalBool(rq.E); err == nil {
						p.assume(t)
					}
				}
			}
		}
	}
	// (c') accumulating closures (contract with each / others clauses): facts per invocation key
	for _, ci := range clos {
		cc := ci.cc
		if len(cc.Each)+len(cc.Others) == 0 {
			continue
		}
		prms := ci.fv.Fn.Fn.Params
		if len(prms) == 0 {
			continue
		}
		t0 := fmt.Sprintf("(TrLen %s)", pre)
		t1 := fmt.Sprintf("(TrLen %s)", post)
		argAt := func(i int, j string) SV {
			arr := "TrA"
			if i == 1 {
				arr = "TrB"
			}
			return unwrapElem(prms[i].Type(), fmt.Sprintf("(select (%s %s) %s)", arr, post, j))
		}
		penv := *ci.cenv
		penv.H = post
		penv.H0 = pre
		// (i) every invocation that is the last one for its key has established `each`
		jenv := &penv
		for i := range prms {
			if i < 2 {
				jenv = jenv.with(prms[i].Name(), argAt(i, "acc_j"))
			}
		}
		for _, ec := range cc.Each {
			if t, err := jenv.evalBool(ec.E); err == nil {
				k0 := argAt(0, "acc_j").T
				k2 := argAt(0, "acc_j2").T
				p.assume(fmt.Sprintf("(forall ((acc_j Int)) (! (=> (and (<= %s acc_j) (< acc_j %s) (forall ((acc_j2 Int)) (! (=> (and (< acc_j acc_j2) (< acc_j2 %s)) (not (= %s %s))) :pattern ((select (TrA %s) acc_j2))))) %s) :pattern ((select (TrA %s) acc_j))))",
					t0, t1, t1, k2, k0, post, t, post))
			} else {
				x.errorf("%s: closure each: %v", cc.Func, err)
			}
		}
		// (ii) keys that were never passed satisfy `others`
		for _, oc := range cc.Others {
			ss, so := quantSort(oc.Var.Type)
			nm := "acc_k"
			oenv := (&penv).with(oc.Var.Name, term(nm, so))
			if t, err := oenv.evalBool(oc.C.E); err == nil {
				kj := argAt(0, "acc_j").T
				p.assume(fmt.Sprintf("(forall ((%s %s)) (=> (forall ((acc_j Int)) (! (=> (and (<= %s acc_j) (< acc_j %s)) (not (= %s %s))) :pattern ((select (TrA %s) acc_j)))) %s))",
					nm, ss, t0, t1, kj, nm, post, t))
			} else {
				x.errorf("%s: closure others: %v", cc.Func, err)
			}
		}
		// plain `ensures` of an accumulating closure are reflexive-transitive two-state relations (equalities
		// between old and new state): they hold from the pre- to the post-state of any number of invocations
		for _, en := range cc.Ensures {
			if !mentionsAny(en.E, prms) {
				if t, err := penv.evalBool(en.E); err == nil {
					p.assume(t)
				}
			}
		}
		// argument-independent preconditions of the closure still hold afterwards (they are preserved by every invocation)
		for _, rq := range cc.Requires {
			if !mentionsAny(rq.E, prms) {
				if t, err := penv.evalBool(rq.E); err == nil {
					p.assume(t)
				}
			}
		}
	}
	// (c) effect of the known closures: established by the last invocation, untouched when never invoked
	for _, ci := range clos {
		if len(ci.cc.Each)+len(ci.cc.Others)+len(ci.cc.Appends) > 0 {
			continue
		}
		calls := fmt.Sprintf("(- (TrLen %s) (TrLen %s))", post, pre)
		penv := *ci.cenv
		penv.H = post
		var es []string
		for _, en := range ci.cc.Ensures {
			if t, err := penv.evalBool(en.E); err == nil {
				es = append(es, t)
			} else {
				x.errorf("%s: closure ensures: %v", ci.cc.Func, err)
			}
		}
		if len(es) > 0 {
			p.assume(fmt.Sprintf("(=> (> %s 0) (and %s))", calls, strings.Join(es, " ")))
		}
		for _, c := range ci.cfs.cells {
			for _, comp := range []string{"CInt", "CBool", "CVal", "CStr", "CF64"} {
				p.assume(fmt.Sprintf("(=> (= %s 0) (= (select (%s %s) %s) (select (%s %s) %s)))", calls, comp, post, c, comp, pre, c))
			}
		}
	}
	eenv := &SpecEnv{x: x, vars: env.vars, H: post, H0: pre, HN: pre}
	restoreTrace := ct.Flags["callbacks"] && !x.cur.ct.Flags["callbacks"] && !ct.Flags["pure"]
	if ct.Flags["callbacks"] && !restoreTrace {
		p.trTouched = true
	}
	if results != nil && results.Len() > 0 {
		var rs []SV
		for i := 0; i < results.Len(); i++ {
			r := x.freshOf(p, results.At(i).Type(), "r")
			if ct.Flags["result-off0"] && r.K == KSlice {
				// the contract ensures off(result) == 0 (proved for the callee): index it directly
				p.assume(fmt.Sprintf("(= %s 0)", r.Off))
				r.Off = "0"
			}
			rs = append(rs, r)
			eenv = eenv.with(fmt.Sprintf("result%d", i), r)
			if results.At(i).Name() != "" {
				eenv = eenv.with(results.At(i).Name(), r)
			}
		}
		if len(rs) == 1 {
			result = rs[0]
			eenv = eenv.with("result", result)
		} else {
			result = SV{K: KTuple, Tup: rs}
		}
	}
	for _, lt := range ct.PLets {
		sv, err := eenv.evalSV(lt.E)
		if err != nil {
			x.errorf("%s: %s plet %s: %v", x.cur.ct.Func, site, lt.Name, err)
			return SV{}, false
		}
		eenv = eenv.with(lt.Name, sv)
	}
	for _, en := range ct.Ensures {
		s, err := eenv.evalBool(en.E)
		if err != nil {
			x.errorf("%s: %s ensures %s: %v", x.cur.ct.Func, site, en.Label, err)
			return SV{}, false
		}
		p.assume(s)
	}
	if restoreTrace {
		// the ghost trace is a log per activation: the entries pushed by this callee (described by its
		// postcondition over the heap `post`) are popped again, so that a function that is not itself a
		// `callbacks` function leaves the trace of its own caller untouched
		x.updMulti(p, map[string]string{
			"TrA":   fmt.Sprintf("(TrA %s)", pre),
			"TrB":   fmt.Sprintf("(TrB %s)", pre),
			"TrLen": fmt.Sprintf("(TrLen %s)", pre)})
		if p.wfKnown != "" {
			p.assume(fmt.Sprintf("(wf %s)", p.H))
			p.wfKnown = p.H
		}
	}
	p.desc = append(p.desc, site)
	return result, true
}

// callCallback: an unknown function-typed parameter is called. Its arguments are
// recorded on the ghost trace; its result is an uninterpreted function of the arguments.
func (x *Exec) callCallback(p *Path, fv SV, args []SV, res ssa.Value, in ssa.Instruction) bool {
	x.assumptions["callbacks do not modify the traversed container or any other modelled heap location"] = true
	sig := fv.Fn.Sig
	toVal := func(i int) string {
		if i >= len(args) {
			return "VNil"
		}
		return wrapElem(sig.Params().At(i).Type(), args[i].T)
	}
	a0, a1 := toVal(0), toVal(1)
	if ca := x.cur.ct.CbArgs; ca != nil {
		env := x.specEnv(p).with("a0", term(a0, SVal)).with("a1", term(a1, SVal))
		if g, err := env.evalBool(ca.E); err == nil {
			x.oblig(p, "callback_args", g, ca.Props, x.pos(in))
		} else {
			x.errorf("%s: callback_args: %v", x.cur.ct.Func, err)
		}
	}
	n := fmt.Sprintf("(TrLen %s)", p.H)
	p.trTouched = true
	x.updMulti(p, map[string]string{
		"TrA":   fmt.Sprintf("(store (TrA %s) %s %s)", p.H, n, a0),
		"TrB":   fmt.Sprintf("(store (TrB %s) %s %s)", p.H, n, a1),
		"TrLen": fmt.Sprintf("(+ %s 1)", n)})
	if p.wfKnown != "" {
		// trace updates do not affect well-formedness
		p.assume(fmt.Sprintf("(wf %s)", p.H))
		p.wfKnown = p.H
	}
	if res != nil && sig.Results().Len() == 1 {
		rt := sig.Results().At(0).Type()
		raw := fmt.Sprintf("(cbret %s %s)", a0, a1)
		r := unwrapElem(rt, raw)
		if r.K == KTerm && r.S != SVal {
			// typed result: the callback returns a value of that type
			switch r.S {
			case SInt:
				p.assume(fmt.Sprintf("((_ is VInt) %s)", raw))
				p.assume(typeInv(rt, r.T))
			case SBool:
				p.assume(fmt.Sprintf("((_ is VBool) %s)", raw))
			case SStr:
				p.assume(fmt.Sprintf("((_ is VStr) %s)", raw))
			case SF64:
				p.assume(fmt.Sprintf("((_ is VFloat) %s)", raw))
			}
		}
		if r.K == KTerm && r.S == SVal {
			// type invariant of callback results
			p.assume(fmt.Sprintf("(okArg %s %s)", p.H, raw))
		}
		x.bind(p, res, x.define(p, "cb", r))
	} else if res != nil {
		x.bind(p, res, SV{K: KTuple})
	}
	p.desc = append(p.desc, "cb")
	return true
}

func (x *Exec) execBuiltin(p *Path, name string, c *ssa.CallCommon, res ssa.Value, in ssa.Instruction) bool {
	arg := func(i int) SV { return x.val(p, c.Args[i]) }
	switch name {
	case "len":
		a := arg(0)
		switch {
		case a.K == KSlice:
			x.bind(p, res, term(a.Len, SInt))
		case a.K == KMap:
			x.bind(p, res, term(fmt.Sprintf("(select (MCard %s) %s)", p.H, a.T), SInt))
		case a.K == KTerm && a.S == SStr:
			x.bind(p, res, term("(slen "+a.T+")", SInt))
		default:
			x.errorf("%s: len of %s", x.cur.ct.Func, a.String())
			return false
		}
		return true
	case "cap":
		a := arg(0)
		x.bind(p, res, term(a.Cap, SInt))
		return true
	case "append":
		return x.execAppend(p, arg(0), arg(1), res, in)
	case "copy":
		dst, src := arg(0), arg(1)
		n := x.fresh("ncopy")
		p.declare(n, "Int")
		p.assume(fmt.Sprintf("(= %s (ite (< %s %s) %s %s))", n, dst.Len, src.Len, dst.Len, src.Len))
		x.frameCheck(p, "arr", dst.Arr, in)
		x.blit(p, dst.Arr, dst.Off, src.Arr, src.Off, n)
		if res != nil {
			x.bind(p, res, term(n, SInt))
		}
		return true
	case "delete":
		m, k := arg(0), arg(1)
		x.frameCheck(p, "map", m.T, in)
		x.mapDelete(p, m, k.T)
		return true
	}
	x.errorf("%s: unsupported builtin %s", x.cur.ct.Func, name)
	return false
}

// blit copies n elements src[so..] -> dst[do..] with memmove semantics (sources read from the pre-state).
func (x *Exec) blit(p *Path, darr, doff, sarr, soff, n string) {
	na := x.fresh("A")
	p.declare(na, "(Array Int Val)")
	p.assume(fmt.Sprintf("(forall ((j Int)) (! (= (select %s j) (ite (and (<= %s j) (< j (+ %s %s))) (select (select (Mem %s) %s) (+ %s (- j %s))) (select (select (Mem %s) %s) j))) :pattern ((select %s j))))",
		na, doff, doff, n, p.H, sarr, soff, doff, p.H, darr, na))
	x.store1(p, "Mem", darr, na)
}

func (x *Exec) execAppend(p *Path, s, t SV, res ssa.Value, in ssa.Instruction) bool {
	if s.K != KSlice || t.K != KSlice {
		x.errorf("%s: append on %s / %s", x.cur.ct.Func, s.String(), t.String())
		return false
	}
	newLen := x.fresh("alen")
	p.declare(newLen, "Int")
	p.assume(fmt.Sprintf("(= %s (+ %s %s))", newLen, s.Len, t.Len))
	p.assume(fmt.Sprintf("(<= %s MAXINT)", newLen))
	// reallocating branch
	q := p.clone()
	fits := fmt.Sprintf("(<= %s %s)", newLen, s.Cap)
	p.assume(fits)
	q.assume("(not " + fits + ")")
	// in place: write t into s's array behind len
	x.frameCheck(p, "arr", s.Arr, in)
	x.blit(p, s.Arr, fmt.Sprintf("(+ %s %s)", s.Off, s.Len), t.Arr, t.Off, t.Len)
	x.bind(p, res, SV{K: KSlice, Arr: s.Arr, Off: s.Off, Len: newLen, Cap: s.Cap, Elem: s.Elem})
	p.desc = append(p.desc, "app-inplace")
	// realloc: fresh array holding s ++ t
	ak := "KNARR"
	if isNamed(s.Elem, "field") {
		ak = "KARR"
	}
	a := x.alloc(q, ak, 1)
	nc := x.fresh("acap")
	q.declare(nc, "Int")
	q.assume(fmt.Sprintf("(and (>= %s %s) (<= %s MAXINT))", nc, newLen, nc))
	x.assumptions["memory is not exhausted: slice lengths stay within int"] = true
	na := x.fresh("A")
	q.declare(na, "(Array Int Val)")
	q.assume(fmt.Sprintf("(forall ((j Int)) (! (=> (and (<= 0 j) (< j %s)) (= (select %s j) (select (select (Mem %s) %s) (+ %s j)))) :pattern ((select %s j))))",
		s.Len, na, q.H, s.Arr, s.Off, na))
	q.assume(fmt.Sprintf("(forall ((j Int)) (! (=> (and (<= %s j) (< j %s)) (= (select %s j) (select (select (Mem %s) %s) (+ %s (- j %s))))) :pattern ((select %s j))))",
		s.Len, newLen, na, q.H, t.Arr, t.Off, s.Len, na))
	x.store1(q, "Mem", a, na)
	q.top().env[res] = SV{K: KSlice, Arr: a, Off: "0", Len: newLen, Cap: nc, Elem: s.Elem}
	q.desc = append(q.desc, "app-realloc")
	x.pending = append(x.pending, q)
	return true
}
