; Reverse: invariant preservation. Integers mathematical.
(declare-sort Fld 0)
(declare-fun a0 () (Array Int Fld))
(declare-fun a () (Array Int Fld))
(declare-const n Int) (declare-const i Int)
(define-fun half () Int (div n 2))
(define-fun inv ((a (Array Int Fld)) (i Int)) Bool
  (and (<= (- 1) i) (<= i (- half 1))
   (forall ((k Int)) (! (=> (and (< i k) (< k half)) (and (= (select a k) (select a0 (- (- n 1) k))) (= (select a (- (- n 1) k)) (select a0 k)))) :pattern ((select a k)) :pattern ((select a0 k))))
   (forall ((k Int)) (! (=> (and (<= 0 k) (< k n) (not (and (< i k) (< k half))) (not (and (< i (- (- n 1) k)) (< (- (- n 1) k) half)))) (= (select a k) (select a0 k))) :pattern ((select a k))))))
(assert (>= n 0))
(assert (inv a i))
(assert (>= i 0))
; body: opp = n-1-i ; bounds obligations ; swap
(define-fun opp () Int (- (- n 1) i))
(define-fun a2 () (Array Int Fld) (store (store a i (select a opp)) opp (select a i)))
(assert (not (and (<= 0 i) (< i n) (<= 0 opp) (< opp n) (inv a2 (- i 1)))))
(check-sat)
