#!/usr/bin/env python3
import json,glob,os,re
rows=[]
for d in sorted(glob.glob('/verif/seeded/*')):
    mp=d+'/meta.json'
    if not os.path.exists(mp): continue
    m=json.load(open(mp))
    pid=m['breaks_property']
    det=m.get('detected_by',{}).get(pid,{})
    how=''
    for l in det.get('lines',[]):
        l=l.strip()
        if l.startswith('failed obligation:') and not how: how='obligation `'+l[len('failed obligation:'):].strip().split(' ')[0]+'`'
    for l in det.get('lines',[]):
        l=l.strip()
        if l.startswith('failing input:'):
            try:
                c=json.loads(l[len('failing input:'):])
                how+=(' + ' if how else '')+'oracle case `'+c['case'][:60]+'`'
            except Exception: pass
            break
    need=(m.get('needs_to_manifest') or '').strip().split('\n')
    needs=' '.join(x.strip() for x in need[:2])[:170]
    status='caught' if det.get('detected') else 'NOT caught'
    if not det.get('detected') and os.path.isdir(d+'r'):
        status='superseded by %sr (patch no longer applies to the repaired tree)'%os.path.basename(d)
    elif not det.get('detected') and m.get('note'):
        status='neutralised by a fix (see meta.json)'
    rows.append('| %s | %s | %s | %s | %s |'%(os.path.basename(d),pid,status,how or '-',needs.replace('|','/')))
t='| seed | property | ./check | first failing obligation / replayed case | what the change is |\n|---|---|---|---|---|\n'+'\n'.join(rows)
s=open('/verif/DESIGN.md').read()
if 'SEEDTABLE' in s:
    s=s.replace('SEEDTABLE','<!-- seedtable-begin -->\n'+t+'\n<!-- seedtable-end -->')
else:
    s=re.sub(r'<!-- seedtable-begin -->.*?<!-- seedtable-end -->','<!-- seedtable-begin -->\n'+t.replace('\\','\\\\')+'\n<!-- seedtable-end -->',s,flags=re.S)
open('/verif/DESIGN.md','w').write(s)
print(len(rows),'rows')
