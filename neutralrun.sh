#!/bin/bash
# neutralrun.sh <dir-with-patch.diff> <props...>: apply a behaviour-preserving refactor to a scratch clone of /repo,
# confirm the suite passes, run the listed checks; any exit!=0 is a FALSE ALARM.
d=$1; shift
n=$(echo $d | tr '/' '_')
R=/tmp/neutralrepo/$n
rm -rf $R; mkdir -p /tmp/neutralrepo; git clone -q /repo $R
export GOFLAGS=-mod=mod GOPROXY=off GOSUMDB=off GOTOOLCHAIN=local VERIF_REPO=$R VERIF_EVIDENCE_DIR=/tmp/neutral-ev/$n VERIF_REPLAY_DIR=/tmp/neutral-rp/$n
git -C $R apply $d/patch.diff || { echo "NEUTRAL $d: does not apply"; rm -rf $R; exit 2; }
(cd $R && go test -vet=off -count=1 ./... >/dev/null 2>&1) || { echo "NEUTRAL $d: suite fails"; rm -rf $R; exit 2; }
for p in "$@"; do
  out=$(cd /verif && ./check $p quick 2>&1); rc=$?
  if [ $rc -ne 0 ]; then echo "NEUTRAL $d $p: FALSE ALARM rc=$rc"; echo "$out" | grep -E "VIOLATION|failed obligation|failing input" | head -5;
  else echo "NEUTRAL $d $p: ok ($(echo "$out" | grep -c UNDECIDED) undecided)"; fi
done
rm -rf $R /tmp/neutral-ev/$n /tmp/neutral-rp/$n
