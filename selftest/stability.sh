#!/bin/bash
# Runs the whole contract suite under several solver seeds; any obligation that fails on the unchanged tree is unstable.
cd "$(dirname "$0")/.."
(cd engine && GOFLAGS=-mod=vendor GOPROXY=off GOSUMDB=off GOTOOLCHAIN=local go build -o ../bin/vcgo .)
for seed in ${SEEDS:-1 2 3 4 5}; do
  echo "== seed $seed"; ./bin/vcgo -repo ${VERIF_REPO:-/repo} -timeout 20 -j ${JOBS:-14} -seed $seed -v 2>&1 | grep -E "functions=|FAILED|SLOW [0-9]{5}" | tail -20
done
