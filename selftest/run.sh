#!/bin/bash
# Self-test of the machinery (DESIGN.md I.6 / Part II section 12):
#   must-pass: every selftest/neutral/*.diff (harmless refactors) applied to a copy of /repo keeps the
#              listed checks green (exit 0, no VIOLATION line; UNDECIDED lines are allowed);
#   must-fail: every seeded/*/patch.diff makes the check of the property it breaks exit 1
#              (except seeds whose meta.json carries a "note": neutralised by a fix).
# Works on $VERIF_REPO (default: a scratch clone of /repo under mktemp -d, removed on exit).
set -u
cd "$(dirname "$0")/.."
V=$(pwd)
if [ -z "${VERIF_REPO:-}" ]; then
  SCR=$(mktemp -d /tmp/verif-selftest-XXXXXX); trap 'rm -rf "$SCR"' EXIT
  git clone -q /repo "$SCR/repo"; export VERIF_REPO="$SCR/repo"
fi
export VERIF_EVIDENCE_DIR=$(mktemp -d /tmp/verif-st-ev-XXXXXX) VERIF_REPLAY_DIR=$(mktemp -d /tmp/verif-st-rp-XXXXXX)
fail=0
declare -A NEUTRAL_PROPS=( [N1-renames-reorder.diff]="C14 C05" [N2-renames-reorder-objects-parser.diff]="C14 C07 C15 C04 C20" )
for f in selftest/neutral/*.diff; do
  b=$(basename $f)
  git -C "$VERIF_REPO" apply "$V/$f" || { echo "NEUTRAL $b: does not apply"; fail=1; continue; }
  for p in ${NEUTRAL_PROPS[$b]:-C05}; do
    out=$(./check $p quick 2>&1); rc=$?
    if [ $rc -ne 0 ]; then echo "NEUTRAL $b $p: FALSE ALARM"; echo "$out" | grep -E "VIOLATION|failed obligation" | head -3; fail=1; else echo "NEUTRAL $b $p: ok ($(echo "$out" | grep -c UNDECIDED) undecided)"; fi
  done
  git -C "$VERIF_REPO" checkout -q HEAD -- .
done
for d in seeded/*/; do
  n=$(basename $d); id=${n%%-*}
  [ -d "seeded/${n}r" ] && continue
  grep -q '"note"' $d/meta.json 2>/dev/null && { echo "SEED $n: skipped (neutralised, see meta.json)"; continue; }
  git -C "$VERIF_REPO" apply "$V/$d/patch.diff" 2>/dev/null || { echo "SEED $n: does not apply"; fail=1; continue; }
  out=$(./check $id quick 2>&1); rc=$?
  if [ $rc -eq 1 ]; then echo "SEED $n: caught"; else echo "SEED $n: MISSED"; fail=1; fi
  git -C "$VERIF_REPO" checkout -q HEAD -- .
done
rm -rf "$VERIF_EVIDENCE_DIR" "$VERIF_REPLAY_DIR"
exit $fail
