#!/bin/bash
# Applies every selftest/neutral/*.diff to a scratch clone of /repo and runs the checks of the properties its
# functions serve; any exit != 0 is a FALSE ALARM. Usage: selftest/neutral_sweep.sh [pattern]
cd "$(dirname "$0")/.."
V=$(pwd)
declare -A P=( [N1]="C14 C05" [N2]="C14 C07 C15 C04 C20" [NA]="C05 C09 C12 C17 C19" [NB]="C14 C18 C07 C08 C13 C02 C16 C09" [NC]="C06 C08 C07 C02 C15 C12 C09 C14" [ND]="C04 C20 C03 C01" [NE]="C10 C11 C19" [NF]="C02 C01 C16 C07 C08 C13" [NG]="C05 C09 C12 C17 C19" [NH]="C14 C18 C07 C08 C13 C02 C16 C09 C15" [NI]="C06 C08 C07 C02 C15 C12 C09 C14 C16" [NJ]="C04 C20 C03 C01" [NK]="C10 C11 C19" [NL]="C02 C01 C16 C07 C08 C13 C12" [NM]="C07 C12" )
fail=0
for f in selftest/neutral/${1:-}*.diff; do
  b=$(basename $f .diff); k=${b%%-*}
  d=$(mktemp -d /tmp/verif-neutral-XXXXXX); cp $f $d/patch.diff
  ./neutralrun.sh $d ${P[$k]:-C05} | sed "s|$d|$b|" | tee -a /tmp/neutral_sweep.log | grep -E "FALSE ALARM|VIOLATION|failed obligation|does not apply|suite fails" && fail=1
  rm -rf $d
done
exit $fail
