#!/bin/bash
# Oracle-only sweep of the neutral corpus: applies every selftest/neutral/*.diff to a scratch clone of /repo and runs
# only the bounded oracles of the properties its functions serve (seconds per patch; the full sweep with the proofs
# is selftest/neutral_sweep.sh). Any ORACLE-FAIL is a FALSE ALARM of an oracle. Usage: selftest/neutral_oracles.sh [pattern]
cd "$(dirname "$0")/.."
V=$(pwd)
export GOFLAGS=-mod=mod GOPROXY=off GOSUMDB=off GOTOOLCHAIN=local
declare -A P=( [N1]="C14 C05" [N2]="C14 C07 C15 C04 C20" [NA]="C05 C09 C12 C17 C19" [NB]="C14 C18 C07 C08 C13 C02 C16 C09" [NC]="C06 C08 C07 C02 C15 C12 C09 C14" [ND]="C04 C20 C03 C01" [NE]="C10 C11 C19" [NF]="C02 C01 C16 C07 C08 C13" [NG]="C05 C09 C12 C17 C19" [NH]="C14 C18 C07 C08 C13 C02 C16 C09 C15" [NI]="C06 C08 C07 C02 C15 C12 C09 C14 C16" [NJ]="C04 C20 C03 C01" [NK]="C10 C11 C19" [NL]="C02 C01 C16 C07 C08 C13 C12" [NM]="C07 C12 C05 C17" )
fail=0
for f in selftest/neutral/${1:-}*.diff; do
  b=$(basename $f .diff); k=${b%%-*}
  R=$(mktemp -d /tmp/verif-norc-XXXXXX)
  git clone -q "${VERIF_REPO:-/repo}" $R/r
  if ! (cd $R/r && git apply $V/$f); then echo "$b does not apply"; rm -rf $R; continue; fi
  python3 - $R/r $V > $R/ov.json <<'PY'
import json, os, sys
R, V = sys.argv[1], sys.argv[2]
print(json.dumps({"Replace": {os.path.join(R, "zz_verif_" + f): os.path.join(V, "replay", f) for f in os.listdir(os.path.join(V, "replay")) if f.endswith("_test.go")}}))
PY
  for p in ${P[$k]:-C05}; do
    out=$(cd $R/r && VERIF_ORACLE=$p VERIF_TIER=quick VERIF_SEED=1 go test -overlay $R/ov.json -vet=off -v -count=1 -timeout 900s -run '^TestVerifOracle$' . 2>&1)
    if echo "$out" | grep -q "ORACLE-FAIL" || ! echo "$out" | grep -q "ORACLE-STATS"; then
      echo "FALSE ALARM $b $p"; echo "$out" | grep "ORACLE-FAIL\|panic\|\.go:" | head -4 | cut -c1-300; fail=1
    else
      echo "ok $b $p"
    fi
  done
  rm -rf $R
done
exit $fail
