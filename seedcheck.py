#!/usr/bin/env python3
"""seedcheck.py <Cxx> <A|B> [props...]: confirm a sub-agent's seeded change (suite passes, demo fails with it,
demo passes without it) in the scratch worktree, keep it under /verif/seeded/, then run my checks with it applied to /repo."""
import json, os, shutil, subprocess, sys
pid, var = sys.argv[1], sys.argv[2]
REPO = os.environ.get("VERIF_REPO", "/repo")
VER = os.path.dirname(os.path.abspath(__file__))
props = sys.argv[3:] or [pid]
src = "/tmp/seedout/%s/%s" % (pid, var)
wt = "/tmp/seed/%s" % pid
env = dict(os.environ, GOFLAGS="-mod=mod", GOPROXY="off", GOSUMDB="off", GOTOOLCHAIN="local", VERIF_EVIDENCE_DIR="/tmp/seed-evidence", VERIF_REPLAY_DIR="/tmp/seed-replays")
def sh(cmd, cwd=None):
    r = subprocess.run(cmd, shell=True, cwd=cwd, env=env, stdout=subprocess.PIPE, stderr=subprocess.STDOUT, text=True, errors="replace")
    return r.returncode, r.stdout
dst = "/verif/seeded/%s-%s" % (pid, var)
ran = []
if os.path.isdir(src) and not os.path.exists(dst + "/meta.json"):
    sh("git checkout -- . && git clean -fdq", wt)
    rc0, o0 = sh("cp %s/verif_demo_test.go . && go test -vet=off -count=1 -run TestVerifDemo . ; rc=$?; rm -f verif_demo_test.go; exit $rc" % src, wt)
    rc1, o1 = sh("git apply %s/patch.diff && go test -vet=off -count=1 ./..." % src, wt)
    rc2, o2 = sh("cp %s/verif_demo_test.go . && go test -vet=off -count=1 -run TestVerifDemo . ; rc=$?; rm -f verif_demo_test.go; exit $rc" % src, wt)
    sh("git checkout -- . && git clean -fdq", wt)
    ok = rc0 == 0 and rc1 == 0 and rc2 != 0
    print("confirm: demo-without=%s suite-with=%s demo-with=%s => %s" % (rc0, rc1, rc2, "CONFIRMED" if ok else "REJECTED"))
    if not ok:
        print(o0[-300:], o1[-300:], o2[-300:]); sys.exit(3)
    os.makedirs(dst, exist_ok=True)
    shutil.copy(src + "/patch.diff", dst + "/patch.diff")
    shutil.copy(src + "/verif_demo_test.go", dst + "/verif_demo_test.go")
    notes = open(src + "/notes.txt").read() if os.path.exists(src + "/notes.txt") else ""
    json.dump({"breaks_property": pid, "needs_to_manifest": notes, "confirmed_by": ["demo passes on pinned tree (go test -run TestVerifDemo)", "suite passes with patch (go test ./...)", "demo fails with patch"], "detected_by": {}}, open(dst + "/meta.json", "w"), indent=1)
meta = json.load(open(dst + "/meta.json"))
rc, o = sh("git -C %s apply --3way %s/patch.diff 2>&1 || git -C %s apply %s/patch.diff" % (REPO, dst, REPO, dst))
if rc != 0:
    print("patch does not apply to current /repo:", o[-300:]); sh("git -C %s reset -q; git -C %s checkout HEAD -- list_impl.go object_impl.go anytype.go parser.go list.go object.go" % (REPO, REPO)); sys.exit(4)
try:
    for p in props:
        rc, o = sh("./check %s quick" % p, VER)
        lines = [l for l in o.splitlines() if l.startswith("VIOLATION") or "failed obligation" in l or "failing input" in l][:6]
        print(p, "DETECTED" if rc == 1 else "missed (rc=%d)" % rc)
        for l in lines: print("   ", l[:220])
        meta["detected_by"][p] = {"detected": rc == 1, "lines": lines}
finally:
    sh("git -C %s reset -q; git -C %s checkout HEAD -- list_impl.go object_impl.go anytype.go parser.go list.go object.go" % (REPO, REPO))
json.dump(meta, open(dst + "/meta.json", "w"), indent=1)
